#!/bin/sh
# Runs every quick check under several VERIF_SEED values with evidence and replays
# redirected to a scratch directory; prints one line per (property, seed).
# usage: ./sweep.sh "1 2 3" [props...]
HERE=$(cd "$(dirname "$0")" && pwd)
SEEDS=${1:-"1 2 3"}; shift
PROPS=${*:-"C01 C02 C03 C04 C05 C06 C07 C08 C09 C10 C11 C12 C13 C14 C15 C16 C17 C18 C19"}
OUT=$(mktemp -d /var/tmp/sweep.XXXXXX)
for s in $SEEDS; do
  for p in $PROPS; do
    t0=$(date +%s)
    VERIF_SEED=$s VERIF_EVIDENCE_DIR=$OUT VERIF_REPLAY_DIR=$OUT timeout 3000 "$HERE/check" $p --tier quick > $OUT/$p.$s.log 2>&1
    rc=$?
    echo "$p seed=$s rc=$rc $(( $(date +%s) - t0 ))s $(grep -c '^VIOLATION' $OUT/$p.$s.log) violations"
    [ $rc -ne 0 ] && grep -v WARN $OUT/$p.$s.log | cut -c1-400 | head -4
  done
done
echo "logs in $OUT"
