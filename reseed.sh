#!/bin/bash
# Re-confirms every seeded change against the current /repo HEAD (scratch worktrees) and
# rewrites seeded/*/meta.json.  usage: ./reseed.sh [jobs]
HERE=$(cd "$(dirname "$0")" && pwd)
JOBS=${1:-3}
OUT=$(mktemp -d /var/tmp/reseed.XXXXXX)
cd "$HERE"
run() {
  d=$1
  prop=$(/venv/bin/python -c "import json;print(json.load(open('$HERE/seeded/$d/meta.json'))['breaks_property'])")
  timeout 3000 /venv/bin/python -m vv.seedtest "$HERE/seeded/$d" "$d" "$prop" "$prop" > "$OUT/$d.log" 2>&1
  echo "$d $(/venv/bin/python -c "import json;m=json.load(open('$HERE/seeded/$d/meta.json'));print(m.get('demo_without_change_exit'), m.get('demo_with_change_exit'), m.get('detected_by'))")"
}
for d in $(ls "$HERE/seeded"); do
  run "$d" &
  while [ "$(jobs -r | wc -l)" -ge "$JOBS" ]; do sleep 3; done
done
wait
echo "logs in $OUT"
