"""Case tables: TLC enumerates a function's small-scope domain, checks the
laws as invariants and exports the expected results; Python runs one
implementation test per exported case."""
import json
import os

from vv import tlc


def run_table(rep, module, name, cfg_text, scratch, timeout=2400, workers=16):
    cfgp = os.path.join(scratch, name + '.cfg')
    out = os.path.join(scratch, name + '.json')
    with open(cfgp, 'w') as f:
        f.write(cfg_text)
    res = tlc.run(module, cfgp, scratch, workers=workers, timeout=timeout,
                  env={'OUT_FILE': out})
    tlc.require_clean(res, name)
    rep.add_tlc(name, res)
    if res.violated:
        rep.violation({'kind': 'spec', 'config': name, 'violated': res.violated},
                      'law %s fails on the specification itself (%s)' % (res.violated, name),
                      {'cfg': cfg_text, 'tlc_tail': res.stdout[-4000:]})
        return []
    if not res.ok:
        raise tlc.MachineryFailure('%s: TLC did not finish (%s)\n%s'
                                   % (name, res.error, res.stdout[-1500:]))
    if not os.path.exists(out):
        raise tlc.MachineryFailure('%s: no case table exported\n%s' % (name, res.stdout[-1500:]))
    with open(out) as f:
        return json.load(f)


def cfg(constants, invariants, init='Init', next_='Next', post='Export'):
    lines = ['INIT ' + init, 'NEXT ' + next_, 'CONSTANTS']
    for k, v in constants.items():
        lines.append('  %s = %s' % (k, v))
    lines.append('CHECK_DEADLOCK FALSE')
    if invariants:
        lines.append('INVARIANTS')
        lines += ['  ' + i for i in invariants]
    if post:
        lines.append('POSTCONDITION ' + post)
    return '\n'.join(lines) + '\n'


def tla_set(xs):
    return '{' + ', '.join(('"%s"' % x) if isinstance(x, str) else str(x) for x in xs) + '}'
