"""C17: path algebra. Paths.tla enumerates trees x paths and dictionaries x
paths, checks the laws, and exports the expected results; every row is run
against Store.get_path / path_to / path_for / normalize_path and the
dictionary helpers."""
import copy
import json

from vv import tlc, table
from vv.verdict import Report

import vivarium  # noqa
from vivarium.core.store import Store, hierarchy_depth
from vivarium.core.process import assoc_in, Process
from vivarium.library.topology import (
    normalize_path, get_in, assoc_path, delete_in, update_in,
    dict_to_paths, paths_to_dict)

LAWS = ['LawWalkIsNormalize', 'LawNormalizeIdempotent', 'LawPathTo',
        'LawPathFor', 'LawMoveKeepsTheAlgebra', 'LawGetAssoc', 'LawDelete', 'LawLeafRoundTrip']


class Idle(Process):
    def ports_schema(self):
        return {}

    def next_update(self, timestep, states):
        return {}


def build_tree(paths, procs=False):
    root = Store({})
    paths = [list(p) for p in paths]
    for p in sorted(paths, key=len):
        if p:
            # the nodes without children are declared variables (procs: they
            # hold processes - a process node is a place in the tree like any other)
            inner = any(q[:len(p)] == p and len(q) > len(p) for q in paths)
            leaf = {'_value': Idle(), '_updater': 'set', '_topology': {}} if procs \
                else {'_default': 1}
            root._establish_path(tuple(p), {} if inner else leaf)
    return root


def count_nodes(store):
    return 1 + sum(count_nodes(c) for c in store.inner.values())


def build_dict(dn, lf):
    d = {}
    for p in sorted(dn, key=len):
        cur = d
        for k in p:
            cur = cur.setdefault(k, {})
    for p, v in lf:
        cur = d
        for k in p[:-1]:
            cur = cur[k]
        cur[p[-1]] = v
    return d


def check_tree(rep, entry, procs=False):
    tree = entry['tree']
    root = build_tree(tree, procs)
    nnodes = count_nodes(root)
    bad = []
    for frm, p, walk, norm in entry['walk']:
        if procs and walk == ['UNDEF']:
            # (walking below a process node means walking into its ports:
            #  not a matter of the tree)
            continue
        rep.evaluations += 1
        node = root.get_path(tuple(frm))
        try:
            r = node.get_path(tuple(p))
            got = list(r.path_for())
            if root.get_path(tuple(got)) is not r:
                got = ['NOT-IN-TREE']
        except Exception:
            got = ['UNDEF']
        if got != walk:
            bad.append(('get_path', frm, p, walk, got))
        if '..' not in norm:   # paths escaping the root are outside the domain
            g = list(normalize_path(tuple(frm) + tuple(p)))
            if g != norm:
                bad.append(('normalize_path', frm, p, norm, g))
        if '..' in p:
            rep.nontrivial.add(json.dumps([sorted(tree), frm, p]))
    if count_nodes(root) != nnodes:
        bad.append(('get_path created nodes', nnodes, count_nodes(root)))
    for a, b, pt in entry['pathto']:
        rep.evaluations += 1
        na, nb = root.get_path(tuple(a)), root.get_path(tuple(b))
        got = list(na.path_to(nb))
        if got != pt:
            bad.append(('path_to', a, b, pt, got))
        else:
            try:
                if na.get_path(tuple(got)) is not nb:
                    bad.append(('follow path_to', a, b, pt, 'other node'))
            except Exception as e:
                bad.append(('follow path_to', a, b, pt, repr(e)))
        if list(nb.path_for()) != b or root.get_path(nb.path_for()) is not nb \
                or nb.top() is not root:
            bad.append(('path_for/top', b))
    # LawMoveKeepsTheAlgebra: move one top-level subtree under another (every
    # path_for has been asked above, before the move)
    tops = sorted(k for k in root.inner)
    if len(tops) >= 2 and not bad and not procs:
        src, dst = tops[0], tops[1]
        node = root.inner[src]
        root.inner[dst].add_node(('z',), node)
        del root.inner[src]

        def moved(p):
            p = list(p)
            return [dst, 'z'] + p[1:] if p[:1] == [src] else p
        nodes = {tuple(moved(p)): None for p in tree}
        for mp in nodes:
            rep.evaluations += 1
            try:
                n = root.get_path(mp)
                nodes[mp] = n
                if list(n.path_for()) != list(mp) or n.top() is not root:
                    bad.append(('path_for after a move', [src, dst], list(mp), list(n.path_for())))
            except Exception as e:
                bad.append(('get_path after a move', [src, dst], list(mp), repr(e)))
        for a, na in nodes.items():
            for b2, nb in nodes.items():
                if na is None or nb is None:
                    continue
                try:
                    if na.get_path(tuple(na.path_to(nb))) is not nb:
                        bad.append(('path_to after a move', [src, dst], list(a), list(b2)))
                except Exception as e:
                    bad.append(('path_to after a move', [src, dst], list(a), list(b2), repr(e)))
    for b in bad[:3]:
        rep.violation({'kind': 'case', 'op': b[0], 'tree': sorted(map(tuple, tree)),
                       'detail': json.dumps(b[1:])},
                      'C17 %s disagrees with Paths.tla: %s' % (b[0], json.dumps(b[1:])),
                      {'tree': tree, 'row': b})


def check_dict(rep, entry):
    d0 = build_dict(entry['dn'], entry['lf'])
    bad = []
    leaves = {tuple(p): v for p, v in entry['lf']}
    rep.evaluations += 1
    if set((tuple(p), v) for p, v in dict_to_paths((), copy.deepcopy(d0))) != set(leaves.items()):
        bad.append(('dict_to_paths', d0))
    if dict(dict_to_paths(('r', 'q'), copy.deepcopy(d0))) != {('r', 'q') + p: v for p, v in leaves.items()}:
        bad.append(('dict_to_paths(root)', d0))
    if hierarchy_depth(copy.deepcopy(d0)) != leaves:
        bad.append(('hierarchy_depth', d0))
    rebuilt = paths_to_dict(dict_to_paths((), copy.deepcopy(d0)))
    if rebuilt != build_dict([list(p[:k]) for p in leaves for k in range(len(p))],
                             entry['lf']):
        bad.append(('paths_to_dict', d0, rebuilt))
    for row in entry['rows']:
        rep.evaluations += 1
        p = tuple(row['p'])
        d = copy.deepcopy(d0)
        try:
            got = get_in(d, p, 'DEFAULT')
        except Exception as e:
            bad.append(('get_in raised %r' % (e,), d0, p))
            continue
        if d != d0:
            bad.append(('get_in mutated', d0, p))
        if row['get'] == 'leaf':
            exp = row['getv']
        elif row['get'] == 'dict':
            exp = build_dict(row['getdn'], row['getlf'])
        else:
            exp = 'DEFAULT'
        if got != exp:
            bad.append(('get_in', d0, p, exp, got))
        if row.get('through'):
            # below a leaf there is nothing to read (above) or to delete; writing
            # there is outside the domain
            d = copy.deepcopy(d0)
            try:
                delete_in(d, p)
            except Exception as e:
                bad.append(('delete_in(below a leaf) raised %r' % (e,), d0, p))
                continue
            if d != d0:
                bad.append(('delete_in(below a leaf)', d0, p, d0, d))
            continue
        expa = build_dict(row['assocdn'], row['assoclf'])
        d = copy.deepcopy(d0)
        r = assoc_path(d, p, 9)
        if r is not d or d != expa:
            bad.append(('assoc_path', d0, p, expa, d))
        if p:
            d = copy.deepcopy(d0)
            r = assoc_in(d, p, 9)
            if r != expa or d != d0:
                bad.append(('assoc_in', d0, p, expa, r))
            d = copy.deepcopy(d0)
            r = update_in(d, p, lambda x: 9)
            if r != expa:
                bad.append(('update_in', d0, p, expa, r))
            elif d != d0:
                # (the result differs from its argument in the addressed subtree
                #  only: the argument itself is as it was)
                bad.append(('update_in modified its argument', d0, p, d0, d))
            if row['get'] == 'leaf':
                # f is applied to the value that is there (also a falsy one)
                d = copy.deepcopy(d0)
                r = update_in(d, p, lambda x: [x, 'seen'])
                want = json.loads(json.dumps(expa).replace('9', json.dumps([row['getv'], 'seen'])))
                if r != want:
                    bad.append(('update_in(f)', d0, p, want, r))
            # read back what was written
            if get_in(expa, p) != 9:
                bad.append(('get_in(assoc)', d0, p))
            rep.nontrivial.add(json.dumps([entry['dn'], entry['lf'], row['p']]))
        expd = build_dict(row['deldn'], row['dellf'])
        d = copy.deepcopy(d0)
        delete_in(d, p)
        if d != expd:
            bad.append(('delete_in', d0, p, expd, d))
    for b in bad[:3]:
        rep.violation({'kind': 'case', 'op': b[0], 'detail': json.dumps(b[1:], default=str)},
                      'C17 %s disagrees with Paths.tla: %s' % (b[0], json.dumps(b[1:], default=str)),
                      {'row': b})


def run(rep, tier, scratch, only=None):
    consts = {'Keys': '{"a", "b"}', 'TreeDepth': 2, 'PathLen': 3, 'Vals': '{0, 1}'}
    runs = [('Paths_ab_d2', consts)]
    if tier == 'thorough':
        runs.append(('Paths_ab_d3', dict(consts, TreeDepth=3, PathLen=3)))
        runs.append(('Paths_abc_d2', dict(consts, Keys='{"a", "b", "c"}', TreeDepth=2,
                                          PathLen=3, Vals='{1}')))
    for name, c in runs:
        cases = table.run_table(rep, 'Paths', name, table.cfg(c, LAWS), scratch)
        for e in cases:
            if e['kind'] == 'tree':
                rep.guard(check_tree, rep, e, what='tree case', detail=e.get('tree'))
                rep.guard(check_tree, rep, e, True, what='tree case (process nodes)',
                          detail=e.get('tree'))
            else:
                rep.guard(check_dict, rep, e, what='dictionary case',
                          detail=[e.get('dn'), e.get('lf')])
        rep.traces += len(cases)
        if cases:
            t = [e for e in cases if e['kind'] == 'tree'][-1]
            rep.add_sample({'tree': t['tree'], 'walk_rows': t['walk'][:5],
                            'pathto_rows': t['pathto'][:3]})
    rep.exhaustive = True


def check(prop, tier, seed):
    rep = Report(prop, tier, seed)
    rep.rule = ('TLC enumerates every prefix-closed tree over the key alphabet up to '
                'the depth bound x every start node x every relative path over '
                'keys + ".." up to the length bound, and every dictionary of depth '
                '<= 2 x every key path of length <= 3; each row is one implementation '
                'test; non-trivial = rows whose path contains ".." / writes below the root')
    rep.assumptions = ['paths escaping the root are outside the domain; below a leaf value '
                       'there is nothing to read or delete, writing there is outside the domain']
    with tlc.Scratch() as scratch:
        run(rep, tier, scratch)
    return rep.finish()


def replay(prop, path):
    rep = Report(prop, 'quick', 0)
    with tlc.Scratch() as scratch:
        run(rep, 'quick', scratch)
    return rep.finish(write=False)
