"""C16: composites. Composite.tla specifies generate-at-a-path and merge over a
heap of composite objects; TLC checks that a merge changes only its target,
is the union under the path, and that generated composites lie under their
path.  Histories of generate / merge(composite) / merge(loose parts) are run on
real Composite objects, all objects are projected after every action and the
trace is validated by CompositeTrace.tla.  The three engine entry points, the
embedding path, schema overrides and MetaComposer are exercised on top."""
import contextlib
import copy
import io
import itertools
import json
import os
import random

from vv import tlc
from vv.verdict import Report

import vivarium  # noqa
from vivarium.core.engine import Engine
from vivarium.core.process import Process, Step
from vivarium.core.composer import (
    Composer, Composite, MetaComposer, get_composite_from_store)

PARTS = ['processes', 'steps', 'flow', 'topology', 'state']


class TagProc(Process):
    defaults = {'tag': 'T'}

    def ports_schema(self):
        return {'v': {'x': {'_default': 0, '_emit': True}}}

    def next_update(self, timestep, states):
        return {'v': {'x': timestep}}


class TagStep(Step):
    defaults = {'tag': 'T'}

    def ports_schema(self):
        return {'v': {'n': {'_default': 0, '_emit': True}}}

    def next_update(self, timestep, states):
        return {'v': {'n': 1}}


class ComposerA(Composer):
    def generate_processes(self, config):
        return {'p1': TagProc({'tag': 'A.p1'})}

    def generate_topology(self, config):
        return {'p1': {'v': ('A.p1.topo',)}}


class ComposerB(Composer):
    def generate_processes(self, config):
        return {'q': {'p2': TagProc({'tag': 'B.p2'})}}

    def generate_steps(self, config):
        return {'s1': TagStep({'tag': 'B.s1'})}

    def generate_flow(self, config):
        return {'s1': []}

    def generate_topology(self, config):
        return {'q': {'p2': {'v': ('B.p2.topo',)}}, 's1': {'v': ('B.s1.topo',)}}


def leaves(d, prefix=()):
    out = []
    if len(prefix) > 8:
        return [(prefix, 'CYCLE')]
    if isinstance(d, dict) and not (d and all(isinstance(v, tuple) for v in d.values())):
        for k, v in d.items():
            out += leaves(v, prefix + (k,))
    else:
        out.append((prefix, d))
    return out


def project(comp):
    o = {}
    procs = dict(leaves(comp['processes']))
    steps = dict(leaves(comp['steps']))
    o['processes'] = sorted([list(p), v.parameters['tag'] if isinstance(v, Process) else 'BAD']
                            for p, v in procs.items() if p)
    o['steps'] = sorted([list(p), v.parameters['tag'] if isinstance(v, Process) else 'BAD']
                        for p, v in steps.items() if p)
    fl = []
    for p, v in leaves(comp['flow']):
        if not p:
            continue
        st = steps.get(p)
        ok = isinstance(v, list) and v == [] and isinstance(st, Process)
        fl.append([list(p), (st.parameters['tag'] + '.flow') if ok else 'BAD'])
    o['flow'] = sorted(fl)
    tp = []
    for p, v in leaves(comp['topology']):
        if not p:
            continue
        ok = isinstance(v, dict) and set(v) == {'v'} and isinstance(v['v'], tuple)
        tp.append([list(p), v['v'][0] if ok else 'BAD'])
    o['topology'] = sorted(tp)
    o['state'] = sorted([list(p), v if isinstance(v, str) else 'BAD'] for p, v in leaves(comp.get('state') or {}) if p)
    return o


def run_history(actions):
    objs, recs = [], []
    for a in actions:
        rec = dict(a)
        rec['exc'] = False
        try:
            path = tuple(a.get('path', ()))
            if a['a'] == 'gen':
                comp = (ComposerA() if a['t'] == 'A' else ComposerB()).generate(path=path)
                objs.append(comp)
            elif a['a'] == 'merge':
                objs[a['i'] - 1].merge(composite=objs[a['j'] - 1], path=path)
            elif a['a'] == 'both':
                n = a['n']
                objs[a['i'] - 1].merge(
                    composite=objs[a['j'] - 1],
                    processes={'q': {n: TagProc({'tag': 'LQ.' + n})}},
                    topology={'q': {n: {'v': ('LQ.%s.topo' % n,)}}},
                    state={'q': {'st': {n: 'LQ.%s.state' % n}}},
                    path=path)
            elif a['a'] == 'run':
                # an engine from the composite, given an initial state that names
                # every store the composite's own state names (other values), run
                # for one tick: the composite must come out as it went in
                src = objs[a['i'] - 1]
                init = {}
                for p, v in leaves(src.get('state') or {}):
                    d = init
                    for k in p[:-1]:
                        d = d.setdefault(k, {})
                    d[p[-1]] = 'ENGINE'
                    d['extra'] = 'ENGINE'
                with contextlib.redirect_stdout(io.StringIO()):
                    eng = Engine(composite=src, initial_state=init, display_info=False,
                                 emitter='null')
                    eng.update(1)
                    eng.end()
            elif a['a'] == 'reload':
                src = objs[a['i'] - 1]
                store = src.generate_store()
                if a.get('how') == 'ctor':
                    comp = Composite(store=store)
                else:
                    comp = get_composite_from_store(store)
                # the state of the loaded composite is the store's full state
                # (declared variables only - values for undeclared paths are
                # not kept by a store): projected away
                comp['state'] = {}
                objs.append(comp)
            else:
                n = a['n']
                objs[a['i'] - 1].merge(
                    processes={'agents': {n: TagProc({'tag': 'L.' + n})}},
                    steps={'agents': {n + 's': TagStep({'tag': 'LS.' + n})}},
                    flow={'agents': {n + 's': []}},
                    topology={'agents': {n: {'v': ('L.%s.topo' % n,)},
                                         n + 's': {'v': ('LS.%s.topo' % n,)}}},
                    state={'agents': {'st': {n: 'L.%s.state' % n}}},
                    path=path)
        except Exception as e:
            rec['exc'] = True
            rec['exc_text'] = repr(e)[:200]
        try:
            rec['objs'] = [project(c) for c in objs]
        except Exception as e:   # an object that is no composite any more
            rec['exc'] = True
            rec['exc_text'] = 'projection: ' + repr(e)[:200]
            rec['objs'] = []
        recs.append(rec)
        if rec['exc']:
            break
    return recs, objs


def conflict_free(actions):
    """prefix conflicts (a leaf where another composite has a branch) are outside
    the domain: embedding paths x / x,y collide with nothing in the templates."""
    return True


def histories(tier, seed):
    rng = random.Random(seed + 16)
    paths = [[], ['x'], ['x', 'y']]
    gens = [{'a': 'gen', 't': t, 'path': p} for t in 'AB' for p in paths]
    out = []
    # two or three objects, then every sequence of two merge actions
    for g1, g2 in itertools.product(gens, repeat=2):
        merges = []
        for i, j in ((1, 2), (2, 1)):
            for p in paths:
                merges.append({'a': 'merge', 'i': i, 'j': j, 'path': p})
        for i in (1, 2):
            for n in ('n1', 'n2'):
                for p in ([], ['x']):
                    merges.append({'a': 'loose', 'i': i, 'n': n, 'path': p})
        for i, j in ((1, 2), (2, 1)):
            for p in ([], ['x']):
                merges.append({'a': 'both', 'i': i, 'j': j, 'n': 'n1', 'path': p})
        for i in (1, 2):
            for how in ('fn', 'ctor'):
                merges.append({'a': 'reload', 'i': i, 'how': how})
        for i in (1, 2):
            merges.append({'a': 'run', 'i': i})
        pairs = list(itertools.product(merges, repeat=2))
        if tier == 'quick':
            rng.shuffle(pairs)
            pairs = [pr for pr in pairs if pr[0]['a'] == 'both'][:6] + \
                [pr for pr in pairs if pr[1]['a'] == 'reload'][:5] + \
                [pr for pr in pairs if pr[1]['a'] == 'run' and pr[0]['a'] in ('loose', 'both')
                 and pr[0]['i'] == pr[1]['i']][:3] + pairs[:10]
        for m1, m2 in pairs:
            out.append([g1, g2, m1, m2])
    if tier == 'thorough':
        for _ in range(1500):
            h = [rng.choice(gens) for _ in range(3)]
            for _ in range(rng.randint(2, 4)):
                r = rng.random()
                if r < 0.2:
                    i, j = rng.sample([1, 2, 3], 2)
                    h.append({'a': 'both', 'i': i, 'j': j, 'n': 'n1',
                              'path': rng.choice([[], ['x']])})
                elif r < 0.6:
                    i, j = rng.sample([1, 2, 3], 2)
                    h.append({'a': 'merge', 'i': i, 'j': j, 'path': rng.choice(paths)})
                else:
                    h.append({'a': 'loose', 'i': rng.randint(1, 3), 'n': rng.choice(['n1', 'n2']),
                              'path': rng.choice([[], ['x']])})
            out.append(h)
    return out


def model_check(rep, tier, scratch):
    text = ('SPECIFICATION Spec\nCONSTANTS\n  MaxObjs = 3\n  MaxSteps = %d\n'
            'CHECK_DEADLOCK FALSE\nPROPERTIES\n  C16_OnlyTargetChanges\n  C16_MergeIsUnion\n'
            '  C16_EmbeddedUnderPath\n  C16_ReloadSame\n  C16_RunLeavesTemplate\n' % (4 if tier == 'quick' else 5))
    path = os.path.join(scratch, 'MC_Composite.cfg')
    with open(path, 'w') as f:
        f.write(text)
    res = tlc.run('Composite', path, scratch, workers=16, timeout=2400)
    tlc.require_clean(res, 'MC_Composite')
    rep.add_tlc('MC_Composite', res)
    if res.violated:
        rep.violation({'kind': 'spec', 'violated': res.violated},
                      'specification property %s fails' % res.violated,
                      {'tlc_tail': res.stdout[-3000:]})
    elif not res.ok:
        raise tlc.MachineryFailure('MC_Composite did not finish: %s' % res.error)


def validate(rep, hists, scratch, label='composite'):
    traces = [run_history(h)[0] for h in hists]
    rej, res, diags = tlc.validate_traces(traces, scratch, module='CompositeTrace',
                                          cfg='CompositeTrace.cfg', label=label)
    rep.add_tlc('CompositeTrace(%s)' % label, res)
    rep.traces += len(traces) - len(rej)
    rep.evaluations += len(traces)
    for h in hists:
        if sum(1 for a in h if a['a'] != 'gen') >= 2:
            rep.nontrivial.add(json.dumps(h, sort_keys=True))
    rep.add_sample(hists[len(hists) // 2])
    for t, stuck in sorted(rej.items()):
        if t < 0:
            continue
        rules = tlc.pick_failing_rules(diags.get(t, []))
        a = hists[t][stuck - 1] if 0 < stuck <= len(hists[t]) else {}
        rep.violation({'kind': 'trace', 'rules': sorted(rules), 'action': a.get('a'),
                       'prev': [x['a'] for x in hists[t][:stuck - 1]][-2:]},
                      'composite history rejected at action %d (%s): %s; history %s'
                      % (stuck, json.dumps(a), sorted(rules), json.dumps(hists[t])),
                      {'history': hists[t], 'stuck_at': stuck, 'rules': sorted(rules)})


def rows_of(eng, total=3):
    eng.update(total)
    return eng.emitter.get_data()


def strip_prefix(data, path):
    out = {}
    for t, d in data.items():
        cur = d
        for k in path:
            cur = cur.get(k, {}) if isinstance(cur, dict) else {}
        out[t] = cur
    return out


def entry_points(rep, tier):
    paths = [(), ('x',), ('x', 'y')]
    base = None
    for path in paths:
        for variant in ('B', 'A+B', 'B+loose'):
            rep.evaluations += 1

            def make():
                c = ComposerB().generate(path=path)
                if variant == 'A+B':
                    c.merge(composite=ComposerA().generate(path=path))
                if variant == 'B+loose':
                    c.merge(processes={'agents': {'n1': TagProc({'tag': 'L.n1'})}},
                            topology={'agents': {'n1': {'v': ('L.n1.topo',)}}}, path=path)
                return c
            sig = {'kind': 'entry', 'path': list(path), 'variant': variant}
            try:
                c1 = make()
                r1 = rows_of(Engine(composite=c1, display_info=False))
                c2 = make()
                r2 = rows_of(Engine(processes=c2['processes'], steps=c2['steps'], flow=c2['flow'],
                                    topology=c2['topology'], display_info=False))
                c3 = make()
                r3 = rows_of(Engine(store=c3.generate_store(), display_info=False))
            except Exception as e:
                rep.violation(sig, 'C16 building/running an engine raised %r (path %s, %s)'
                              % (e, path, variant), {})
                continue
            if not (r1 == r2 == r3):
                rep.violation(sig, 'C16 the three engine entry points emit different data for '
                              'path %s variant %s: composite %r parts %r store %r'
                              % (path, variant, r1.get(3.0), r2.get(3.0), r3.get(3.0)), {})
            if variant == 'B':
                rel = strip_prefix(r1, path)
                if base is None:
                    base = rel
                elif rel != base:
                    rep.violation(dict(sig, what='embedding'),
                                  'C16 the composite embedded at %s does not run as at the root: '
                                  '%r vs %r' % (path, rel.get(3.0), base.get(3.0)), {})
            rep.nontrivial.add('entry-%s-%s' % (path, variant))


class StartProc(TagProc):
    """a process that defines initial_state() (x starts at 5, its default is 0)"""

    def initial_state(self, config=None):
        return {'v': {'x': 5}}


class Succ(Step):
    """a = x + 1"""
    defaults = {'tag': 'succ'}

    def ports_schema(self):
        return {'v': {'x': {'_default': 0}, 'a': {'_default': 0, '_updater': 'set', '_emit': True}}}

    def next_update(self, timestep, states):
        return {'v': {'a': states['v']['x'] + 1}}


class Tenfold(Step):
    """b = 10 * a"""
    defaults = {'tag': 'tenfold'}

    def ports_schema(self):
        return {'v': {'a': {'_default': 0}, 'b': {'_default': 0, '_updater': 'set', '_emit': True}}}

    def next_update(self, timestep, states):
        return {'v': {'b': 10 * states['v']['a']}}


class ComposerLegacy(Composer):
    """Steps returned by generate_processes (the older, still supported way),
    listed against the order their flow gives them: tenfold needs succ."""

    def generate_processes(self, config):
        return {'tenfold': Tenfold(), 'succ': Succ(), 'p': TagProc({'tag': 'p'})}

    def generate_flow(self, config):
        return {'tenfold': [('succ',)], 'succ': []}

    def generate_topology(self, config):
        return {k: {'v': ('v',)} for k in ('tenfold', 'succ', 'p')}


def entry_points_legacy_steps(rep):
    """Steps listed among the processes, with a flow, at the root, embedded at
    a path and merged at a path: the same simulation through the three entry
    points, and the same as at the root (b = 10 * (x + 1) at every row)."""
    for how, path in (('generate', ()), ('generate', ('cell',)), ('generate', ('agents', 'a')),
                      ('merge', ('agents', 'b'))):
        rep.evaluations += 1
        sig = {'kind': 'entry-legacy-steps', 'how': how, 'path': list(path)}

        def make():
            if how == 'generate':
                return ComposerLegacy().generate(path=path)
            c = Composite()
            c.merge(composite=ComposerLegacy().generate(), path=path)
            return c
        rows = {}
        try:
            for entry in ('composite', 'parts', 'store'):
                c = make()
                if entry == 'composite':
                    eng = Engine(composite=c, display_info=False)
                elif entry == 'parts':
                    eng = Engine(processes=c['processes'], steps=c['steps'], flow=c['flow'],
                                 topology=c['topology'], display_info=False)
                else:
                    eng = Engine(store=c.generate_store(), display_info=False)
                rows[entry] = strip_prefix(rows_of(eng, 3), path)
        except Exception as e:
            rep.violation(dict(sig, what='raised'),
                          'C16 a composite with steps listed among its processes (%s at %s) '
                          'raised %r' % (how, path, e), {})
            continue
        want = {float(t) if t else 0: {'v': {'x': t, 'a': t + 1, 'b': 10 * (t + 1)}}
                for t in range(4)}
        got = {e: {t: r.get('v') for t, r in rows[e].items()} for e in rows}
        exp = {t: {k: v for k, v in r['v'].items() if k != 'x' or True} for t, r in want.items()}
        bad = sorted(e for e in got
                     if {float(t): v for t, v in got[e].items()} != {float(t): v for t, v in exp.items()})
        if bad:
            rep.violation(dict(sig, differs=bad),
                          'C16 steps listed among the processes with the flow tenfold <- succ '
                          '(%s at %s): the entry points %s emit %r, expected b = 10 * (x + 1) in '
                          'every row: %r' % (how, path, bad, got[bad[0]].get(3.0), exp.get(3.0)), {})
        rep.nontrivial.add('entry-legacy-%s-%s' % (how, path))


def entry_points_initial_state(rep):
    """The three entry points for a composite whose process defines
    initial_state(): the same simulation through each."""
    rep.evaluations += 1
    rows = {}
    for entry in ('composite', 'parts', 'store'):
        c = Composite(processes={'p': StartProc({'tag': 'p'})}, topology={'p': {'v': ('pv',)}})
        try:
            if entry == 'composite':
                eng = Engine(composite=c, display_info=False)
            elif entry == 'parts':
                eng = Engine(processes=c['processes'], topology=c['topology'],
                             display_info=False)
            else:
                eng = Engine(store=c.generate_store(), display_info=False)
            rows[entry] = rows_of(eng, 2)
        except Exception as e:
            rep.violation({'kind': 'entry-initial-state', 'entry': entry, 'what': 'raised'},
                          'C16 a composite whose process defines initial_state() cannot be run '
                          'through the %s entry point: %r' % (entry, e), {})
            return
    start = {e: r.get(0, r.get(0.0)) for e, r in rows.items()}
    if not (rows['composite'] == rows['parts'] == rows['store']):
        differs = sorted(e for e in rows if rows[e] != rows['composite'])
        rep.violation({'kind': 'entry-initial-state', 'differs': differs,
                       'start': json.dumps(start, sort_keys=True)},
                      'C16 a composite whose process defines initial_state() ({v: {x: 5}}, '
                      'default 0) starts differently through the three entry points: %r'
                      % (start,), {})
    rep.nontrivial.add('entry-initial-state')


def reloaded_composite_runs(rep):
    """A composite read back from a store (get_composite_from_store,
    Composite(store=...)) runs like the composite the store was generated from."""
    want = rows_of(Engine(composite=ComposerB().generate(), display_info=False))
    for via in ('get_composite_from_store', 'Composite(store=)'):
        rep.evaluations += 1
        sig = {'kind': 'reloaded-composite-runs', 'via': via}
        try:
            store = ComposerB().generate().generate_store()
            comp = get_composite_from_store(store) if via.startswith('get') \
                else Composite(store=store)
            got = rows_of(Engine(composite=comp, display_info=False))
        except Exception as e:
            rep.violation(dict(sig, what='raised'),
                          'C16 an engine built from a composite read back from a store (%s) '
                          'raised %r' % (via, e), {})
            continue
        if got != want:
            rep.violation(sig, 'C16 an engine built from a composite read back from a store '
                          '(%s) emits %r, the original composite %r'
                          % (via, got.get(3.0), want.get(3.0)), {})
    rep.nontrivial.add('reloaded-composite-runs')


def steps_only(rep):
    """A composite that holds steps and no process runs through every entry point."""
    rep.evaluations += 1
    rows = {}
    for entry in ('composite', 'parts', 'store'):
        c = Composite(steps={'s1': TagStep({'tag': 's1'})}, flow={'s1': []},
                      topology={'s1': {'v': ('sv',)}})
        try:
            if entry == 'composite':
                eng = Engine(composite=c, display_info=False)
            elif entry == 'parts':
                eng = Engine(steps=c['steps'], flow=c['flow'], topology=c['topology'],
                             display_info=False)
            else:
                eng = Engine(store=c.generate_store(), display_info=False)
            rows[entry] = rows_of(eng, 2)
        except Exception as e:
            rep.violation({'kind': 'steps-only', 'entry': entry},
                          'C16 a composite of steps only cannot be run through the %s entry '
                          'point: %r' % (entry, e), {})
            return
    if not (rows['composite'] == rows['parts'] == rows['store']):
        rep.violation({'kind': 'steps-only', 'what': 'rows'},
                      'C16 a composite of steps only emits different data through the three '
                      'entry points: %r' % (rows,), {})
    rep.nontrivial.add('steps-only')


def overrides(rep):
    rep.evaluations += 1

    class Two(Composer):
        def generate_processes(self, config):
            return {'p1': TagProc({'tag': 'p1'}), 'p2': TagProc({'tag': 'p2'})}

        def generate_topology(self, config):
            return {'p1': {'v': ('a',)}, 'p2': {'v': ('b',)}}
    comp = Two({'_schema': {'p1': {'v': {'x': {'_emit': False, '_default': 7}}}}}).generate()
    s1 = comp['processes']['p1'].get_schema()
    s2 = comp['processes']['p2'].get_schema()
    if s1['v']['x'] != {'_default': 7, '_emit': False} or s2['v']['x'] != {'_default': 0, '_emit': True}:
        rep.violation({'kind': 'override'}, 'C16 schema override reached %r / %r' % (s1, s2), {})
    comp2 = Two().generate()
    comp2.merge(schema_override={'p2': {'v': {'x': {'_updater': 'set'}}}})
    if comp2['processes']['p2'].get_schema()['v']['x'].get('_updater') != 'set' or \
            '_updater' in comp2['processes']['p1'].get_schema()['v']['x']:
        rep.violation({'kind': 'override', 'via': 'merge'},
                      'C16 merge(schema_override=...) reached the wrong process', {})
    # overrides reach steps as well, through every site that accepts them
    rep.evaluations += 1
    want = {'_default': 0, '_emit': False}
    cb = ComposerB({'_schema': {'s1': {'v': {'n': {'_emit': False}}}}}).generate()
    if cb['steps']['s1'].get_schema()['v']['n'] != want:
        rep.violation({'kind': 'override', 'via': 'composer', 'target': 'step'},
                      'C16 a Composer _schema override for a step gives %r'
                      % (cb['steps']['s1'].get_schema(),), {})
    cb = ComposerB().generate()
    cb.merge(schema_override={'s1': {'v': {'n': {'_emit': False}}}})
    if cb['steps']['s1'].get_schema()['v']['n'] != want:
        rep.violation({'kind': 'override', 'via': 'merge', 'target': 'step'},
                      'C16 merge(schema_override=...) for a step gives %r'
                      % (cb['steps']['s1'].get_schema(),), {})
    cc = Composite({'processes': {'p': TagProc({'tag': 'p'})},
                    'steps': {'s': TagStep({'tag': 's'})}, 'flow': {'s': []},
                    'topology': {'p': {'v': ('a',)}, 's': {'v': ('a',)}},
                    '_schema': {'s': {'v': {'n': {'_emit': False}}},
                                'p': {'v': {'x': {'_default': 3}}}}})
    if cc['steps']['s'].get_schema()['v']['n'] != want or \
            cc['processes']['p'].get_schema()['v']['x'].get('_default') != 3:
        rep.violation({'kind': 'override', 'via': 'composite'},
                      'C16 Composite({... _schema}) overrides give %r / %r'
                      % (cc['steps']['s'].get_schema(), cc['processes']['p'].get_schema()), {})
    # two processes configured from one dictionary (shallow copies share its nested
    # '_schema'): an override naming one of them must not reach the other
    rep.evaluations += 1
    cfg = {'_schema': {'v': {'x': {'_emit': False}}}}
    a, b2 = TagProc(dict(cfg, tag='a')), TagProc(dict(cfg, tag='b'))
    Composite({'processes': {'a': a, 'b': b2},
               'topology': {'a': {'v': ('sa',)}, 'b': {'v': ('sb',)}},
               '_schema': {'a': {'v': {'x': {'_default': 5}}}}})
    sa, sb = a.get_schema()['v']['x'], b2.get_schema()['v']['x']
    if sa != {'_default': 5, '_emit': False} or sb != {'_default': 0, '_emit': False} \
            or cfg != {'_schema': {'v': {'x': {'_emit': False}}}}:
        rep.violation({'kind': 'override', 'via': 'shared-config'},
                      'C16 an override for process a changed %r / %r (b must keep default 0) '
                      'and the configuration dictionary %r' % (sa, sb, cfg), {})
    # overrides naming processes in nested branches next to processes at the
    # top: every named process is reached whatever the order of the keys, the
    # processes not named keep their schema
    class Deep(Composer):
        def generate_processes(self, config):
            return {'agents': {'1': {'pa': TagProc({'tag': 'pa'}), 'pk': TagProc({'tag': 'pk'})},
                               '2': {'pb': TagProc({'tag': 'pb'})}},
                    'q': TagProc({'tag': 'q'}), 'r': TagProc({'tag': 'r'})}

        def generate_topology(self, config):
            return {'agents': {'1': {'pa': {'v': ('a',)}, 'pk': {'v': ('k',)}},
                               '2': {'pb': {'v': ('b',)}}},
                    'q': {'v': ('q',)}, 'r': {'v': ('r',)}}

    def ov(d):
        return {'v': {'x': {'_default': d}}}
    named = {('agents', '1', 'pa'): 11, ('agents', '2', 'pb'): 12, ('q',): 13}
    orders = [['agents', 'q'], ['q', 'agents']]
    for order in orders:
        for via in ('composer', 'merge', 'composite'):
            rep.evaluations += 1
            full = {'agents': {'1': {'pa': ov(11)}, '2': {'pb': ov(12)}}, 'q': ov(13)}
            override = {k: full[k] for k in order}
            if via == 'composer':
                comp = Deep({'_schema': override}).generate()
            elif via == 'merge':
                comp = Deep().generate()
                comp.merge(schema_override=override)
            else:
                base = Deep().generate()
                comp = Composite({'processes': base['processes'],
                                  'topology': base['topology'], '_schema': override})
            got = {}
            for path in [('agents', '1', 'pa'), ('agents', '1', 'pk'), ('agents', '2', 'pb'),
                         ('q',), ('r',)]:
                node = comp['processes']
                for k in path:
                    node = node[k]
                got[path] = node.get_schema()['v']['x'].get('_default')
            want = {path: named.get(path, 0) for path in got}
            if got != want:
                rep.violation({'kind': 'override', 'via': via, 'target': 'nested',
                               'order': '/'.join(order)},
                              'C16 a schema override naming agents/1/pa, agents/2/pb and q (keys '
                              'in the order %s, through %s) gives the defaults %r, expected %r'
                              % (order, via, got, want), {})
    rep.nontrivial.add('nested-overrides')
    # a ports schema that uses one dictionary for several variables (the usual
    # {name: schema for name in names}): an override naming one of them reaches
    # that one only
    rep.evaluations += 1

    class Molecules(Process):
        def ports_schema(self):
            molecule = {'_default': 0, '_emit': True}
            return {'v': {name: molecule for name in ('a', 'b', 'c')}}

        def next_update(self, timestep, states):
            return {}
    over = {'v': {'a': {'_default': 5}}}
    for via in ('process', 'composite'):
        if via == 'process':
            proc = Molecules({'_schema': over})
            comp = Composite({'processes': {'m': proc}, 'topology': {'m': {'v': ('cell',)}}})
        else:
            proc = Molecules()
            comp = Composite({'processes': {'m': proc}, 'topology': {'m': {'v': ('cell',)}},
                              '_schema': {'m': over}})
        got = {k: v.get('_default') for k, v in proc.get_schema()['v'].items()}
        store = comp.generate_store().get_value()['cell']
        if got != {'a': 5, 'b': 0, 'c': 0} or store != {'a': 5, 'b': 0, 'c': 0}:
            rep.violation({'kind': 'override', 'via': via, 'what': 'shared schema dictionary'},
                          'C16 an override for variable a of a process whose ports schema uses '
                          'one dictionary for a, b and c (given to the %s): the defaults are %r, '
                          'the store holds %r, expected a: 5, b: 0, c: 0' % (via, got, store), {})
    # an override given to a composite later reaches that composite only: not
    # the composer it came from, not the composites generated from it afterwards
    rep.evaluations += 1
    import copy as _copy
    given = {'p1': {'v': {'x': {'_emit': False}}}}
    composer = Two({'_schema': _copy.deepcopy(given)})
    first = composer.generate()
    first.merge(schema_override={'p1': {'v': {'x': {'_default': 9}}}})
    second = composer.generate()
    got = {'composer': composer.schema_override,
           'second': second['processes']['p1'].get_schema()['v']['x'].get('_default'),
           'first': first['processes']['p1'].get_schema()['v']['x'].get('_default')}
    if got != {'composer': given, 'second': 0, 'first': 9}:
        rep.violation({'kind': 'override', 'via': 'merge', 'what': 'leak'},
                      'C16 merge(schema_override={p1: v.x._default 9}) on one generated '
                      'composite: the composer\'s override, the default of p1 in a composite '
                      'generated afterwards and in the composite itself are %r, expected %r'
                      % (got, {'composer': given, 'second': 0, 'first': 9}), {})
    # a process and a step under one name cannot both be kept: rejected everywhere
    rep.evaluations += 1

    class Clash(Composer):
        def generate_processes(self, config):
            return {'a': TagProc({'tag': 'p'})}

        def generate_steps(self, config):
            return {'a': TagStep({'tag': 's'})}

        def generate_topology(self, config):
            return {'a': {'v': ('a',)}}
    for via, fn in (
            ('composer', lambda: Clash().generate()),
            ('composite', lambda: Composite(processes={'a': TagProc({'tag': 'p'})},
                                            steps={'a': TagStep({'tag': 's'})},
                                            topology={'a': {'v': ('a',)}})),
            ('merge', lambda: ComposerA().generate().merge(
                steps={'p1': TagStep({'tag': 's'})}))):
        try:
            fn()
            rep.violation({'kind': 'name-clash', 'via': via},
                          'C16 a process and a step under the same name were accepted (%s)' % via,
                          {})
        except ValueError:
            pass
    # MetaComposer hands the configuration given to generate() on to every composer
    rep.evaluations += 1

    class Cfg(Composer):
        defaults = {'tag': 'default', 'name': 'c'}

        def generate_processes(self, config):
            return {config['name']: TagProc({'tag': config['tag']})}

        def generate_topology(self, config):
            return {config['name']: {'v': ('a',)}}
    mc = MetaComposer([Cfg({'name': 'c1'}), Cfg({'name': 'c2', 'tag': 'own'})])
    got = project(mc.generate({'tag': 'given'}))['processes']
    if got != [[['c1'], 'given'], [['c2'], 'given']]:
        rep.violation({'kind': 'metacomposer', 'what': 'config'},
                      'C16 MetaComposer.generate(config) built %r' % (got,), {})
    got = project(mc.generate())['processes']
    if got != [[['c1'], 'default'], [['c2'], 'own']]:
        rep.violation({'kind': 'metacomposer', 'what': 'own-config'},
                      'C16 MetaComposer.generate() built %r' % (got,), {})
    rep.evaluations += 1
    try:
        MetaComposer([ComposerA(), ComposerA()]).generate()
        rep.violation({'kind': 'metacomposer'},
                      'C16 MetaComposer accepted two composers with overlapping keys', {})
    except ValueError:
        pass
    try:
        mc = MetaComposer([ComposerA(), ComposerB()]).generate()
        if project(mc)['processes'] != [[['p1'], 'A.p1'], [['q', 'p2'], 'B.p2']]:
            rep.violation({'kind': 'metacomposer', 'what': 'union'},
                          'C16 MetaComposer result %r' % (project(mc),), {})
    except Exception as e:
        rep.violation({'kind': 'metacomposer', 'what': 'raised'},
                      'C16 MetaComposer raised %r' % (e,), {})


def check(prop, tier, seed):
    rep = Report(prop, tier, seed)
    rep.rule = ('TLC: exhaustive model checking of Composite.tla (3 objects, 4-5 actions); '
                'implementation: every pair of generated composites (templates A/B x embedding '
                'paths (), x, x/y) followed by sequences of two merge actions (composite or '
                'loose nested parts, with and without a path) - sampled in the quick tier - all '
                'objects projected after every action and validated by CompositeTrace.tla; the '
                'three engine entry points x embedding paths x merge variants; schema '
                'overrides; MetaComposer; non-trivial = histories with at least two merges')
    rep.assumptions = ['merges that put a branch where the target holds a leaf are outside the domain']
    with tlc.Scratch() as scratch:
        model_check(rep, tier, scratch)
        validate(rep, histories(tier, seed), scratch)
    rep.guard(entry_points, rep, tier, what='engine entry points')
    rep.guard(overrides, rep, what='schema overrides / MetaComposer')
    rep.guard(steps_only, rep, what='steps-only composite')
    rep.guard(reloaded_composite_runs, rep, what='a composite read back from a store')
    rep.guard(entry_points_initial_state, rep, what='entry points with initial_state()')
    rep.guard(entry_points_legacy_steps, rep, what='entry points with steps among the processes')
    return rep.finish()


def replay(prop, path):
    with open(path) as f:
        data = json.load(f)
    rep = Report(prop, 'quick', 0)
    h = data.get('replay', {}).get('history')
    if h:
        with tlc.Scratch() as scratch:
            validate(rep, [h], scratch, label='replay')
    else:
        entry_points(rep, 'quick')
        overrides(rep)
        steps_only(rep)
        entry_points_initial_state(rep)
        entry_points_legacy_steps(rep)
    return rep.finish(write=False)
