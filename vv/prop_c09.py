from vv.props_store import check, replay  # noqa
