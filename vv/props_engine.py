"""Checks for the scheduler properties (C01, C02, C03, C04, C12, C05).

Each check has two halves:
  1. TLC model-checks Engine.tla (MC_Engine) for small constants with the
     invariants / action properties / liveness of that property, and
     demonstrates non-vacuity by requiring a counter-example when the
     corresponding pinned-tree deviation is switched on.
  2. Executions of the real engine (systematic enumeration of scripted
     answers + seeded random scenarios) are recorded and validated by TLC
     against EngineTrace.tla; a rejected trace is attributed to the
     property that owns the first rule it breaks.
"""
import contextlib
import hashlib
import io
import json
import os
import random

from vv import tlc, engine_run as er
from vv.verdict import Report

# rule (or invariant prefix) -> properties that own it
RULE_OWNER = {
    'time': ['C03'], 'stall': ['C03'], 'poll_unexpected': ['C03'],
    'return_early': ['C03'], 'exception': ['C03'], 'poll_busy': ['C03'],
    'poll_no_timestep': ['C02'],
    'fit': ['C02'], 'handed': ['C02', 'C01'], 'front_time': ['C02'],
    'front_pending': ['C01'], 'apply_unexpected': ['C01'],
    'apply_content': ['C01'], 'ledger': ['C01'], 'apply_missing': ['C01'],
    'view': ['C04'], 'step_layer_incomplete': ['C04', 'C05'],
    'step_unexpected': ['C05'], 'step_twice': ['C05'], 'step_order': ['C05'],
    'step_ts': ['C05'], 'step_view': ['C05'], 'step_missing': ['C05'],
    'step_apply_order': ['C05'],
    'row_time': ['C12'], 'row_content': ['C12'], 'row_unexpected': ['C12'],
    'row_missing': ['C12'], 'config_record': ['C12'],
    'poll_dead': ['C10'], 'step_dead': ['C10'],
    'struct': [], 'unknown_record': [],
}

INVARIANTS = {
    'C01': (['C01_OnTime', 'C01_NothingInFlightAtReturn', 'C01_Ledger'],
            ['C01_ApplyConsumes', 'C01_OnlyApplyChangesState']),
    'C02': (['C02_TsIsIntervalLength', 'C02_SumIsElapsed', 'C02_CompleteAfterForce'],
            ['C02_Contiguous']),
    'C03': (['C03_NoOvershoot', 'C03_ReturnExact', 'C03_ClockIndInv'],
            ['C03_Monotone', 'C03_Progress', 'C03_Terminates']),
    'C04': (['C04_Snapshot'], ['C04_NoCommitWhilePolling']),
    'C05': (['C05_DepsAppliedBeforeInvoke', 'C05_SeqStepsAlone', 'C05_OncePerPhase'],
            ['C05_StepsOnlyAfterBatch']),
    'C12': ([], ['C12_RowAfterSteps', 'C12_RowAtNow', 'C12_RowPerBatch']),
    'C10': (['C10_FrontIsLive', 'C10_DeletedNotInFlight', 'C01_OnTime',
             'C01_NothingInFlightAtReturn', 'C02_TsIsIntervalLength', 'C03_NoOvershoot',
             'C03_ReturnExact'],
            ['C10_FreshStartsNow', 'C03_Monotone', 'C03_Progress', 'C03_Terminates']),
}

# deviation -> (property, names of the properties TLC must report violated)
DEVIATIONS = {
    'UntruncatedTs': 'C02',
    'StaleJump': 'C03',
    'QuietStuck': 'C03',
    'Repoll': 'C03',
}


def mc_cfg(prop, procs, ts, intervals, max_calls, horizon, emit_step=1, dev=(),
           steps=(), deps='NoDeps', seq='NoSeq', shared=None, all_props=False,
           directors=(), spare=(), init_live=None, extra_inv=(), extra_act=()):
    inv, act = INVARIANTS[prop]
    if all_props:
        inv = sorted({i for p in INVARIANTS for i in INVARIANTS[p][0]})
        act = sorted({a for p in INVARIANTS for a in INVARIANTS[p][1]})
    q = lambda xs: '{' + ', '.join('"%s"' % x for x in xs) + '}'
    n = lambda xs: '{' + ', '.join(str(x) for x in xs) + '}'
    shared = procs if shared is None else shared
    inv = list(inv) + list(extra_inv)
    act = list(act) + list(extra_act)
    init_live = procs if init_live is None else init_live
    lines = [
        'SPECIFICATION MCSpec', 'CONSTANTS',
        '  Procs = ' + q(procs), '  Steps = ' + q(steps),
        '  Vars = ' + q(list(procs) + list(steps) + ['s']),
        '  TS = ' + n(ts), '  Intervals = ' + n(intervals),
        '  MaxCalls = %d' % max_calls, '  Horizon = %d' % horizon,
        '  EmitStep = %d' % emit_step, '  Dev = ' + q(dev),
        '  SharedW = ' + q(shared), '  Directors = ' + q(directors), '  Spare = ' + q(spare),
        '  InitLive = ' + q(init_live),
        '  InitSteps = ' + q(steps), '  InitDeps <- ' + deps,
        '  InitSeq <- ' + seq, 'CHECK_DEADLOCK FALSE',
        'INVARIANTS', '  TypeOK']
    lines += ['  ' + i for i in inv]
    if act:
        lines += ['PROPERTIES'] + ['  ' + a for a in act]
    return '\n'.join(lines) + '\n'


def run_mc(rep, prop, scratch, name, cfgtext, timeout=1500, expect_violation=False):
    path = os.path.join(scratch, name + '.cfg')
    with open(path, 'w') as f:
        f.write(cfgtext)
    res = tlc.run('MC_Engine', path, scratch, workers=16, timeout=timeout)
    tlc.require_clean(res, name)
    if expect_violation:
        if not res.violated:
            raise tlc.MachineryFailure(
                '%s: deviation not detected by TLC (vacuous model?)' % name)
        rep.notes.setdefault('deviation_counterexamples', []).append(
            {'config': name, 'violated': res.violated, 'states': res.distinct})
        return res
    rep.add_tlc(name, res)
    if res.violated:
        rep.violation({'kind': 'spec', 'config': name, 'violated': res.violated},
                      'specification property %s fails in bounded model %s'
                      % (res.violated, name),
                      {'cfg': cfgtext, 'tlc_tail': res.stdout[-4000:]})
    elif not res.ok:
        raise tlc.MachineryFailure('%s: TLC did not finish: %s' % (name, res.error))
    return res


def model_check(rep, prop, tier, scratch):
    if prop == 'C05':
        return model_check_steps(rep, tier, scratch)
    if tier == 'quick':
        cfgs = [('q2', dict(procs=['p1', 'p2'], ts=[1, 2, 3], intervals=[1, 2, 3],
                            max_calls=2, horizon=4,
                            emit_step=2 if prop == 'C12' else 1))]
    else:
        cfgs = [
            ('t2', dict(procs=['p1', 'p2'], ts=[1, 2, 3], intervals=[1, 2, 3],
                        max_calls=3, horizon=6,
                        emit_step=2 if prop == 'C12' else 1)),
            ('t3', dict(procs=['p1', 'p2', 'p3'], ts=[1, 2], intervals=[1, 2, 3],
                        max_calls=2, horizon=4, shared=['p1', 'p2'],
                        emit_step=3 if prop == 'C12' else 1)),
        ]
    for name, kw in cfgs:
        run_mc(rep, prop, scratch, 'MC_%s_%s' % (prop, name), mc_cfg(prop, **kw))
    # tiny configurations that matter for termination: no process at all
    if prop == 'C03':
        run_mc(rep, prop, scratch, 'MC_C03_empty',
               mc_cfg(prop, procs=[], ts=[1], intervals=[1, 2], max_calls=3, horizon=4))
    # non-vacuity: the pinned deviations must be caught by this property's model
    for dev, owner in DEVIATIONS.items():
        if owner != prop:
            continue
        run_mc(rep, prop, scratch, 'MC_%s_dev_%s' % (prop, dev),
               mc_cfg(prop, procs=['p1', 'p2'], ts=[1, 2, 3], intervals=[1, 2, 3],
                      max_calls=3, horizon=5, dev=[dev], all_props=True),
               expect_violation=True)


def model_check_steps(rep, tier, scratch):
    """All flows over 3 (quick) / 4 (thorough) graph steps plus derivers."""
    from vv import props_steps
    props_steps.model_check(rep, tier, scratch)


# ------------------------------------------------------------ trace sources

def scenario_hash(sc):
    return hashlib.sha1(json.dumps(sc, sort_keys=True).encode()).hexdigest()[:16]


CALL_SETS_QUICK = [
    ((2, False), (2, True)),
    ((3, True),),
    ((1, False), (1, False), (2, True)),
]
CALL_SETS_THOROUGH = CALL_SETS_QUICK + [
    ((4, True),), ((2, False), (1, False), (2, False)),
    ((3, False), (3, True)), ((1, True), (2, False), (2, True)),
]


def gen_scenarios(tier, seed, want_steps=False):
    rng = random.Random(seed)
    out = []
    if tier == 'quick':
        sysd = list(er.systematic_scenarios(2, [1, 2, 3], [True, False],
                                            CALL_SETS_QUICK, 2))
        rng2 = random.Random(seed + 1)
        rng2.shuffle(sysd)
        out += sysd[:1500]
        nrand = 800
    else:
        out += list(er.systematic_scenarios(2, [1, 2, 3], [True, False],
                                            CALL_SETS_THOROUGH, 2))
        out += list(er.systematic_scenarios(3, [1, 2], [True, False],
                                            CALL_SETS_QUICK[:2], 2))
        nrand = 12000
    for i in range(nrand):
        if i % 5 == 4:
            out.append(er.director_scenario(rng))
            continue
        out.append(er.random_scenario(
            rng, nprocs=rng.randint(1, 4 if tier == 'thorough' else 3),
            state_dependent=(i % 3 == 0),
            nsteps=(rng.randint(0, 4) if (want_steps or i % 4 == 0) else 0)))
    # a path deleted and created again in one batch, also while the old process
    # waits with a deferred timestep
    out += er.recreate_scenarios()
    # degenerate composites: no process at all, and only quiet processes
    # (an engine cannot be built from empty dictionaries: the process-free
    #  composite holds one step)
    out.append({'procs': {}, 'order': [],
                'steps': {'s1': {'vars': ['s1'], 'deps': []}}, 'step_order': ['s1'],
                'calls': [[2, False], [3, True]], 'emit_step': 1, 'init': {}})
    out.append({'procs': {'p1': {'vars': ['p1'], 'writes': {}, 'ts': [1], 'cond': [False]}},
                'order': ['p1'], 'calls': [[2, True], [2, False], [1, True]],
                'emit_step': 1, 'init': {}})
    return out


def float_companion(rep, prop, tier, seed):
    """Ordinary decimal float times without global_time_precision.

    TLA+ has no floats, and without a precision grid the implementation's times
    carry float error (0.1 + 0.2), so these runs cannot be mapped to the ticks of
    Engine.tla without guessing.  They are therefore judged by the few facts the
    properties state that survive float error, directly on the recorded events
    (one process, so no two events are meant to coincide):
      C03  no exception, no hang; the clock never decreases; at each return it
           equals start + interval exactly (the same float sum the caller makes);
      C01  after a forced return every update that was returned has been applied
           exactly once, in the order it was returned;
      C02  after a forced return the timesteps handed sum to the simulated time
           (relative error < 1e-9) and nothing is pending (update() asserts it).
    Zero-length slivers caused by float error are accepted."""
    rng = random.Random(seed + 77)
    n = 300 if tier == 'quick' else 4000
    for i in range(n):
        sc = er.float_scenario(rng)
        raw = er.run_scenario(sc)
        rep.evaluations += 1
        f = sc['fscale']
        bad = None
        now_prev = None
        start = None
        handed, inv_uids, app_uids = [], [], []
        quiet = False
        t_first = sc.get('t0', 0) * f
        for e in raw:
            if e[0] in ('exc', 'stall'):
                if prop == 'C03' or (prop == 'C02' and 'unapplied' in str(e)) \
                        or (prop == 'C01' and 'unapplied' in str(e)):
                    bad = 'the engine %s: %s' % ('hung' if e[0] == 'stall' else 'raised',
                                                  e[1] if len(e) > 1 else '')
                break
            if e[0] == 'call':
                start, iv, force = e[3], e[1], e[2]
            now = {'call': 3, 'ts': 3, 'cond': 4, 'inv': 3}.get(e[0])
            if now is not None:
                if now_prev is not None and e[now] < now_prev and prop == 'C03':
                    bad = 'the clock went back from %r to %r' % (now_prev, e[now])
                    break
                now_prev = e[now]
            if e[0] == 'cond':
                handed.append(e[2])
                quiet = quiet or not e[3]
            if e[0] == 'inv':
                inv_uids.append(e[5])
            if e[0] == 'apply' and e[4] not in app_uids:
                app_uids.append(e[4])
            if e[0] == 'return':
                if prop == 'C03' and e[1] != start + iv:
                    bad = 'the call from %r for %r returned at %r' % (start, iv, e[1])
                    break
                if force:
                    if prop == 'C01' and app_uids != inv_uids:
                        bad = 'updates returned %r, applied %r' % (inv_uids, app_uids)
                        break
                    el = e[1] - t_first
                    # (a quiet interval ends at the next event, not after its timestep)
                    if prop == 'C02' and not quiet \
                            and abs(sum(handed) - el) > 1e-9 * max(1.0, abs(el)):
                        bad = 'timesteps handed sum to %r, simulated time is %r' % (
                            sum(handed), el)
                        break
        if bad:
            rep.violation({'kind': 'float', 'scenario': scenario_hash(sc)},
                          '%s with plain float times (tick %r, no global_time_precision): %s; '
                          'scenario %s' % (prop, f, bad, json.dumps(sc)),
                          {'scenario': sc, 'float': True})
        elif any(abs(h / f - round(h / f)) > 1e-12 for h in handed):
            rep.nontrivial.add('float-%d' % i)
    rep.notes['float_scenarios'] = n


def empty_hierarchy(rep):
    """C03 'including when there are no processes at all': an engine over a
    composite that holds nothing, and an engine whose only process deletes every
    node of the hierarchy, itself included: every call returns at start + interval."""
    from vivarium.core.engine import Engine
    from vivarium.core.process import Process
    from vivarium.core.composer import Composite

    class Eraser(Process):
        defaults = {'time_step': 1}

        def ports_schema(self):
            return {'root': {'_output': True}, 'x': {'v': {'_default': 1, '_emit': True}}}

        def next_update(self, timestep, states):
            return {'root': {'_delete': ['eraser', 'x']}}
    for name in ('empty composite', 'everything deleted'):
        rep.evaluations += 1
        sig = {'kind': 'empty-hierarchy', 'case': name}
        try:
            if name == 'empty composite':
                eng = Engine(composite=Composite(), display_info=False)
            else:
                eng = Engine(processes={'eraser': Eraser()},
                             topology={'eraser': {'root': (), 'x': ('x',)}},
                             display_info=False)
                eng.update(1)
            t0 = eng.global_time
            eng.run_for(3)
            eng.update(2)
            got = eng.global_time
        except Exception as e:
            rep.violation(sig, 'C03 an engine over a hierarchy without processes (%s) raised %r'
                          % (name, e), {})
            continue
        if got != t0 + 5:
            rep.violation(sig, 'C03 an engine over a hierarchy without processes (%s): '
                          'run_for(3); update(2) from %r returned at %r' % (name, t0, got), {})
    rep.nontrivial.add('empty-hierarchy')


def rows_with_units(rep):
    """C12, last clause of the first sentence: rows hold the values 'units and
    custom serializers applied'.  One engine whose variables are a quantity with
    declared units (updated in another compatible unit), a quantity that takes
    its units from its default, a list of quantities, a set with the set
    serializer, an array and a variable with a user-defined serializer.  The
    expected value of each at every row time follows from the updates (all
    processes have timestep 1); the row must hold serialize_value of exactly
    that value in the declared units (the serializer itself is C14's subject),
    and deserializing the row gives the value back."""
    import numpy as np
    from vivarium.core.engine import Engine
    from vivarium.core.process import Process
    from vivarium.core.serialize import serialize_value, deserialize_value
    from vivarium.core.registry import Serializer
    from vivarium.core.emitter import make_fallback_serializer_function
    from vivarium.library.units import units
    from vivarium import serializer_registry

    class TagSerializer(Serializer):
        def serialize(self, data):
            return 'tag<%d>' % data

    class QTagSerializer(Serializer):
        def serialize(self, data):
            return 'qtag<%.1f %s>' % (data.magnitude, data.units)

    if 'TagSerializer' not in serializer_registry.registry:
        serializer_registry.register('TagSerializer', TagSerializer())
    if 'QTagSerializer' not in serializer_registry.registry:
        serializer_registry.register('QTagSerializer', QTagSerializer())

    class Q(Process):
        defaults = {'time_step': 1}

        def ports_schema(self):
            return {'m': {
                'mass': {'_default': 1 * units.g, '_units': units.mg, '_emit': True},
                'conc': {'_default': 2.0 * units.mM, '_emit': True},
                'many': {'_default': [1 * units.mg, 2 * units.mg], '_updater': 'set',
                         '_emit': True},
                'tags': {'_default': set(), '_updater': 'set', '_serializer': 'set',
                         '_emit': True},
                'arr': {'_default': np.array([1, 2]), '_emit': True},
                'tagged': {'_default': 0, '_serializer': 'TagSerializer', '_emit': True},
                # a custom serializer on a variable whose default carries units
                'qtag': {'_default': 1.5 * units.mg, '_serializer': 'QTagSerializer',
                         '_emit': True},
                'hidden': {'_default': 5 * units.g, '_emit': False}}}

        def next_update(self, timestep, states):
            k = int(round(states['m']['tagged'])) + 1
            return {'m': {'mass': 1 * units.g, 'conc': 0.5 * units.mM,
                          'many': [k * units.g, 2 * k * units.mg],
                          'tags': {k}, 'arr': np.array([1, 1]), 'tagged': 1,
                          'qtag': 0.5 * units.mg}}

    rep.evaluations += 1
    eng = Engine(processes={'q': Q()}, topology={'q': {'m': ('m',)}},
                 emitter={'type': 'timeseries'}, display_info=False)
    eng.update(3)
    rows = eng.emitter.get_data()
    fb = make_fallback_serializer_function()

    def expected(k):
        return {'mass': ((1000 + 1000 * k) * units.mg),
                'conc': (2.0 + 0.5 * k) * units.mM,
                'many': ([1 * units.mg, 2 * units.mg] if k == 0
                         else [(1000 * k) * units.mg, 2 * k * units.mg]),
                'tags': (set() if k == 0 else {k}),
                'arr': np.array([1 + k, 2 + k]),
                'tagged': k, 'qtag': (1.5 + 0.5 * k) * units.mg}
    for k in range(4):
        t = float(k)
        row = rows.get(t)
        if row is None:
            rep.violation({'kind': 'units-row', 'what': 'missing', 't': k},
                          'C12 no row for time %r in %r' % (t, sorted(rows)), {})
            continue
        got = row.get('m', {})
        exp = expected(k)
        if set(got) != set(exp):
            rep.violation({'kind': 'units-row', 'what': 'keys', 't': k},
                          'C12 row %r holds variables %s, flagged for emission are %s'
                          % (t, sorted(got), sorted(exp)), {})
            continue
        for var, val in exp.items():
            if var == 'tagged':
                want = 'tag<%d>' % val
            elif var == 'qtag':
                want = 'qtag<%.1f milligram>' % val.magnitude
            elif var == 'tags':
                want = sorted(val)
                got[var] = sorted(got[var]) if isinstance(got[var], list) else got[var]
            elif var in ('mass', 'conc', 'many'):
                # (1 g in mg is 1000.0: the number format is not the subject; the
                #  value and the unit are compared after deserializing, below)
                want = got[var]
                if not all(isinstance(x, str) and x.startswith('!units[')
                           for x in (got[var] if isinstance(got[var], list) else [got[var]])):
                    want = serialize_value({'x': val}, fb)['x']
            else:
                want = serialize_value({'x': val}, fb)['x']
            if got[var] != want:
                rep.violation({'kind': 'units-row', 'var': var, 't': k},
                              'C12 row %r holds %s = %r; the hierarchy held %r, which serializes '
                              'to %r' % (t, var, got[var], val, want), {})
                continue
            if var in ('mass', 'conc', 'many'):
                back = deserialize_value(got[var])
                same = (all(a == b and str(a.units) == str(b.units) for a, b in zip(back, val))
                        if isinstance(val, list) else
                        (back == val and str(back.units) == str(val.units)))
                if not same:
                    rep.violation({'kind': 'units-row', 'var': var, 't': k, 'what': 'units'},
                                  'C12 row %r: %s deserializes to %r, the hierarchy held %r (in '
                                  'its declared units)' % (t, var, back, val), {})
    rep.nontrivial.add('rows-with-units')


def clock_unbounded(rep, scratch):
    """Clock.tla: the time rules of run_for with UNBOUNDED integer times and timesteps
    (three processes).  Apalache discharges the inductive invariant (base case and
    step) and, from an arbitrary state satisfying it, the consequences and the action
    properties: the clock never passes the end, never goes back, every iteration moves
    it or ends the call, the timestep handed out is the length of the interval, an
    update in flight is applied exactly when the clock reaches the end of its interval.
    The same invariant is a TLC invariant of Engine.tla (C03_ClockIndInv)."""
    from vv import apalache
    runs = [('Init', 'IndInv', 0), ('IndInit', 'IndInv', 1),
            ('IndInit', 'Consequences', 0), ('IndInit', 'ActionProps', 1)]
    out = []
    for init, inv, length in runs:
        r = apalache.check('Clock', init, inv, length, scratch)
        tail = r.pop('tail')
        out.append(r)
        if r['outcome'] != 'ok':
            rep.violation({'kind': 'spec', 'config': 'Clock/%s/%s' % (init, inv)},
                          'Clock.tla: %s does not follow from %s in %d step(s) (Apalache)'
                          % (inv, init, length), {'apalache_tail': tail})
    rep.notes['apalache_runs'] = out


def branch_flags(rep):
    """C12: an emit flag given at branch level (store_schema at construction, or
    Store.set_emit_values on the running engine) acts on the whole branch: every row
    holds exactly the variables below the flagged branches, with the values the
    hierarchy holds at that time - also a variable that a port declares with an empty
    schema ({}: every default), a variable in a nested branch, and, once the flag is
    set again, a node that an _add update put there; a flag False hides the branch."""
    from vivarium.core.engine import Engine
    from vivarium.core.process import Process

    class Grow(Process):
        defaults = {'time_step': 1.0}

        def ports_schema(self):
            return {'cell': {'mass': {'_default': 1}, 'note': {},
                             'sub': {'deep': {'_default': 0}, 'bare': {}}},
                    'pool': {'seed': {'_default': 0}},
                    'dark': {'h': {'_default': 0, '_emit': True}, 'g': {}}}

        def next_update(self, timestep, states):
            upd = {'cell': {'mass': 1, 'sub': {'deep': 2},
                            'note': {'_value': 10 * states['cell']['mass'], '_updater': 'set'}},
                   'dark': {'h': 1}}
            if states['cell']['mass'] == 2:
                upd['pool'] = {'_add': [{'key': 'late', 'state': {'x': 5}}]}
            return upd

    for how in ('store_schema', 'set_emit_values'):
        kw = {}
        if how == 'store_schema':
            kw['store_schema'] = {'cell': {'_emit': True}, 'pool': {'_emit': True},
                                  'dark': {'_emit': False}}
        with contextlib.redirect_stdout(io.StringIO()):
            eng = Engine(processes={'grow': Grow()},
                         topology={'grow': {'cell': ('cell',), 'pool': ('pool',),
                                            'dark': ('dark',)}},
                         initial_state={'cell': {'mass': 1, 'note': 7, 'sub': {'bare': 3}},
                                        'dark': {'g': 4}},
                         emitter='timeseries', display_info=False, **kw)
            if how == 'set_emit_values':
                eng.state.set_emit_values([('cell',), ('pool',)], emit=True)
                eng.state.set_emit_values([('dark',)], emit=False)
            held = []
            reflag = None
            for k in range(4):
                eng.update(1.0)
                if how == 'set_emit_values' and eng.global_time == 2.0:
                    # the flag is set again now that the new child exists
                    eng.state.set_emit_values([('pool',)], emit=True)
                    reflag = 2.0
                held.append((eng.global_time,
                             {'cell': eng.state.get_path(('cell',)).get_value(),
                              'pool': eng.state.get_path(('pool',)).get_value()}))
            data = eng.emitter.get_data()
        rep.evaluations += 1
        for t, h in held:
            row = data.get(t)
            if row is None:
                rep.violation({'kind': 'branch-flags', 'how': how, 'what': 'missing'},
                              'C12 no row for time %r (%s)' % (t, how), {})
                continue
            exp = dict(h)
            if reflag is None or t <= reflag:
                # a child added after the flag was set is not covered by it
                exp['pool'] = {k: v for k, v in exp['pool'].items() if k != 'late'}
            got = {k: v for k, v in row.items() if k != 'time'}
            got = {k: v for k, v in got.items() if v != {}}
            if got != exp:
                rep.violation({'kind': 'branch-flags', 'how': how,
                               'differs': sorted(k for k in set(got) | set(exp)
                                                 if got.get(k) != exp.get(k))},
                              'C12 branches cell and pool are flagged for emission as a whole '
                              '(%s), dark is flagged off: at time %r the hierarchy holds %r, '
                              'the row has %r' % (how, t, exp, got), {'how': how})
    rep.nontrivial.add('branch-flags')


def chunked_rows(rep, scratch):
    """Breakdown.tla (an extension of C12 to the emitter that stores a large row in
    pieces): every datum x limit of the table is broken down by the real
    breakdown_data, the pieces are written under their paths and merged the way
    write_emit / assemble_data do, and the result must hold exactly the leaves
    the specification says can be stored, with their values, none of them twice."""
    from vv import table
    from vivarium.core.emitter import breakdown_data, assemble_data
    from vivarium.library.topology import assoc_path
    cases = table.run_table(
        rep, 'Breakdown', 'Breakdown',
        table.cfg({'Sizes': '{1, 4, 9}', 'Limits': '{3, 8, 14, 40}'},
                  ['LawAssembleGivesBack', 'LawPiecesDisjoint', 'LawPieceUnderPath',
                   'LawPiecesFit']), scratch)

    def leaves(d, prefix=()):
        out = {}
        for k, v in d.items():
            if isinstance(v, dict):
                out.update(leaves(v, prefix + (k,)))
            else:
                out[prefix + (k,)] = v
        return out
    for c in cases:
        rep.evaluations += 1
        data = {}
        for path, size in c['leaves']:
            cur = data
            for k in path[:-1]:
                cur = cur.setdefault(k, {})
            cur[path[-1]] = int('7' * size)           # len(str(value)) == size
        import contextlib
        import io
        with contextlib.redirect_stdout(io.StringIO()):
            pieces = breakdown_data(c['limit'], json.loads(json.dumps(data)))
        docs = []
        for path, datum in pieces:
            d = {}
            assoc_path(d, tuple(path), datum)
            docs.append({'assembly_id': 'x', 'data': d if path else datum})
        try:
            got = leaves(assemble_data(docs).get('x', {})) if docs else {}
        except Exception as e:
            rep.violation({'kind': 'chunks', 'what': 'overlap'},
                          'C12 (chunked rows) the pieces of %r at limit %d cannot be merged: %r'
                          % (data, c['limit'], e), {'case': c})
            continue
        want = {tuple(p): int('7' * dict((tuple(q), sz) for q, sz in c['leaves'])[tuple(p)])
                for p in (c['stored'] or [])}
        if got != want:
            rep.violation({'kind': 'chunks', 'limit': c['limit'],
                           'leaves': json.dumps(c['leaves'])},
                          'C12 (chunked rows) breaking %r down at limit %d and assembling the '
                          'pieces gives the leaves %r, Breakdown.tla says %r'
                          % (data, c['limit'], sorted(got), sorted(want)), {'case': c})
        if len(pieces) > 1:
            rep.nontrivial.add('chunks-%s-%d' % (json.dumps(c['leaves']), c['limit']))
    rep.notes['chunked_row_cases'] = len(cases)


def cyclic_flows(rep):
    """C05 quantifies over flows that are DAGs; a flow with a cycle has no order
    in which 'a step runs only after all steps it depends on', and an unknown
    dependency names no step: the engine must refuse both at construction."""
    from vivarium.core.engine import Engine
    from vv.probes import ProbeStep
    bad = {
        'self-loop': {'s1': [('s1',)], 's2': []},
        'two-cycle': {'s1': [('s2',)], 's2': [('s1',)]},
        'three-cycle': {'s1': [('s3',)], 's2': [('s1',)], 's3': [('s2',)]},
        'cycle behind a root': {'s1': [], 's2': [('s1',), ('s3',)], 's3': [('s2',)]},
        'unknown dependency': {'s1': [('zz',)], 's2': []},
        'unknown nested dependency': {'g': {'s3': [('zz',)]}, 's1': []},
    }
    for name, flow in bad.items():
        rep.evaluations += 1
        steps, topo = {}, {}
        for sid, deps in flow.items():
            if isinstance(deps, dict):
                steps[sid] = {k: ProbeStep({'pid': k, 'vars': [k], 'silent': True}) for k in deps}
                topo[sid] = {k: {'v': ('..', 'v')} for k in deps}
            else:
                steps[sid] = ProbeStep({'pid': sid, 'vars': [sid], 'silent': True})
                topo[sid] = {'v': ('v',)}
        try:
            Engine(steps=steps, flow=flow, topology=topo, display_info=False,
                   emitter={'type': 'null'})
        except Exception:
            rep.nontrivial.add('flow-' + name)
            continue
        rep.violation({'kind': 'bad-flow', 'flow': name},
                      'C05 the engine accepted a flow that admits no dependency order (%s): %r'
                      % (name, flow), {'flow': {k: str(v) for k, v in flow.items()}})


def interesting(prop, recs):
    polls = [r for r in recs if r['ev'] == 'poll']
    if prop == 'C01':
        return any(r['ev'] == 'apply' for r in recs) and any(p['cond'] == 'F' for p in polls)
    if prop == 'C02':
        return any(p['cond'] == 'T' and 0 < p['handed'] < p['ts'] for p in polls) \
            or any(p['ts'] == -1 for p in polls)
    if prop == 'C03':
        return any(p['cond'] in 'FN' for p in polls)
    if prop == 'C04':
        nows = [p['now'] for p in polls if p['cond'] == 'T' and 's' in p['view']]
        return len(nows) != len(set(nows))
    if prop == 'C05':
        return sum(1 for r in recs if r['ev'] == 'step') >= 2
    if prop == 'C12':
        return sum(1 for r in recs if r['ev'] == 'row') >= 3 and bool(recs[0].get('emit_off'))
    if prop == 'C10':
        return any(p.get('sop', {}).get('op') != 'none' for p in polls)
    return True


def struct_check(rep, tier, seed, scratch):
    """C10, scheduler side: processes deleted and created while updates with
    different timesteps are in flight."""
    kw = dict(procs=['p1', 'p2', 'p3'], init_live=['p1', 'p2'], directors=['p1'],
              spare=['p3'], shared=['p2', 'p3'], ts=[1, 2], intervals=[2, 3],
              max_calls=2, horizon=4 if tier == 'quick' else 5)
    run_mc(rep, 'C10', scratch, 'MC_C10_struct', mc_cfg('C10', **kw))
    rng = random.Random(seed + 10)
    scs = [er.director_scenario(rng) for _ in range(400 if tier == 'quick' else 4000)]
    scs += er.recreate_scenarios()
    validate(rep, 'C10', scs, scratch, label='struct', struct_owner='C10')


def validate(rep, prop, scenarios, scratch, label='impl', struct_owner=None):
    traces = []
    for sc in scenarios:
        raw = er.run_scenario(sc, watchdog=20.0)
        traces.append(er.to_records(sc, raw))
    return judge(rep, prop, scenarios, traces, scratch, label, struct_owner)


EXPLORE_QUICK = [
    (2, [1, 2, 3], [(2, False), (3, True)]),
    (2, [1, 2, 3], [(2, False), (3, False), (3, True)]),
    (3, [1, 2], [(3, False), (2, True)]),
]
EXPLORE_THOROUGH = EXPLORE_QUICK + [
    (3, [1, 2, 3], [(2, False), (3, True)]),
    (3, [1, 2], [(3, False), (2, False), (3, True)]),
    (2, [1, 2, 3, 5], [(4, False), (1, False), (6, True)]),
    (3, [1, 2, 3], [(4, True), (3, False), (2, True)]),
    (4, [1, 2], [(2, False), (3, True)]),
    (3, [1, 2, 3], [(3, False), (2, False), (4, True)]),
    (4, [1, 2, 3], [(3, False), (3, True)]),
    (2, [1, 2, 3, 4, 5], [(5, False), (5, True), (3, True)]),
    (2, [1, 2, 3], [(1, False), (1, False), (1, False), (1, False), (2, True)]),
]


def explore(rep, prop, tier, scratch):
    """Stateful exploration of the real scheduler (vv/systematic.py): every
    reachable abstract scheduler state and every answer in it, within the bounds."""
    from vv import systematic
    total_states = 0
    for n, ts, calls in (EXPLORE_QUICK if tier == 'quick' else EXPLORE_THOROUGH):
        sc, traces, nstates, left = systematic.explore(
            n, ts, [True, False], calls, max_states=300000, max_runs=600000)
        total_states += nstates
        rep.notes.setdefault('explored', []).append(
            {'processes': n, 'timesteps': ts, 'calls': calls, 'abstract_states': nstates,
             'runs': len(traces), 'unexpanded': left})
        scs = [dict(sc, explored_run=i) for i in range(len(traces))]
        judge(rep, prop, scs, traces, scratch, 'explore%d' % n, None)
    rep.notes['explored_abstract_states'] = total_states


def judge(rep, prop, scenarios, traces, scratch, label='impl', struct_owner=None):
    rej, res, diags = tlc.validate_traces(traces, scratch, label=label)
    rep.add_tlc('EngineTrace(%s)' % label, res)
    rep.traces += len(traces) - len([t for t in rej if t >= 0])
    rep.evaluations += len(traces)
    for sc, recs in zip(scenarios, traces):
        if interesting(prop, recs):
            rep.nontrivial.add(scenario_hash(sc))
    if traces:
        rep.add_sample({'scenario': scenarios[0], 'trace': traces[0][:12]})
    other = {}
    if res.violated:
        # an invariant of Engine.tla failed on a state reconstructed from a trace
        owners = {v[:3] for v in res.violated}
        if prop in owners:
            rep.violation({'kind': 'trace-invariant', 'violated': sorted(res.violated)},
                          'invariant %s fails on a state reconstructed from an '
                          'implementation trace' % res.violated,
                          {'tlc_tail': res.stdout[-6000:]})
    for t, stuck in sorted(rej.items()):
        if t < 0:
            continue
        rules = tlc.pick_failing_rules(diags.get(t, []))
        owners = set()
        for r in rules:
            owners.update(RULE_OWNER.get(r, []))
        if not owners:
            owners = {'C03'} if not rules or rules <= {'struct'} else set()
        # a flow that the engine refuses (or trips over) is a failure of C05 as well
        if 'exception' in rules and 0 < stuck <= len(traces[t]) and any(
                w in str(traces[t][stuck - 1].get('text', ''))
                for w in ('dependency step', 'flow', 'cycle')):
            owners.add('C05')
        # once a structural operation has been issued, a scheduling failure is
        # (also) a failure to run exactly what is in the hierarchy
        if struct_owner and any(r.get('ev') == 'poll' and r.get('sop', {}).get('op') != 'none'
                                for r in traces[t][:stuck]):
            owners.add(struct_owner)
        if prop in owners:
            rec = traces[t][stuck - 1] if 0 < stuck <= len(traces[t]) else None
            rep.violation(
                {'kind': 'trace', 'rules': sorted(rules),
                 'scenario': scenario_hash(scenarios[t])},
                'implementation trace rejected at record %d (%s): rules %s'
                % (stuck, json.dumps(rec), sorted(rules)),
                {'scenario': scenarios[t], 'stuck_at': stuck,
                 'rules': sorted(rules), 'trace': traces[t]})
        else:
            for o in owners:
                other[o] = other.get(o, 0) + 1
    if other:
        rep.notes['rejected_traces_attributed_elsewhere'] = other
    return traces


def check(prop, tier, seed):
    rep = Report(prop, tier, seed)
    rep.rule = (
        'TLC: exhaustive model checking of Engine.tla (MC_Engine) with the '
        'invariants of %s; implementation: every scripted-answer scenario of '
        'the systematic family (2-3 processes, timesteps {1,2,3} x condition '
        '{T,F}, scripts of length 2, fixed call patterns) plus seeded random '
        'scenarios, each run on the real engine and validated record by '
        'record against EngineTrace.tla; a scenario is non-trivial for this '
        'property if its trace exercises it (see props_engine.interesting)' % prop)
    rep.assumptions = [
        'times are integer ticks; probes are deterministic and do not mutate views',
        'TLC results are bounded by the constants recorded under tlc_runs',
    ]
    with tlc.Scratch() as scratch:
        model_check(rep, prop, tier, scratch)
        if prop in ('C01', 'C02', 'C03', 'C04', 'C12'):
            explore(rep, prop, tier, scratch)
        if prop == 'C03':
            clock_unbounded(rep, scratch)
        if prop in ('C01', 'C02', 'C03'):
            float_companion(rep, prop, tier, seed)
        scs = gen_scenarios(tier, seed, want_steps=(prop == 'C05'))
        if prop == 'C05':
            from vv import props_steps
            scs = (props_steps.dag_scenarios(3) + props_steps.dag_scenarios(3, nest=True) +
                   (props_steps.dag_scenarios(4) if tier == 'thorough' else [])
                   + scs[-(900 if tier == 'quick' else 4000):])
            rep.notes['flows_enumerated'] = (
                'every acyclic flow over 3%s steps x every ordering of up to '
                '2 legacy derivers' % (' and 4' if tier == 'thorough' else ''))
        validate(rep, prop, scs, scratch)
        if prop == 'C01':
            from vv import prop_c06
            rep.guard(prop_c06.collisions_for, rep, scratch, 3 if tier == 'quick' else 1,
                      what='colliding port variables')
        if prop == 'C05':
            cyclic_flows(rep)
        if prop == 'C03':
            rep.guard(empty_hierarchy, rep, what='a hierarchy without processes')
        if prop == 'C12':
            rep.guard(rows_with_units, rep, what='rows with units and serializers')
            rep.guard(branch_flags, rep, what='branch-level emit flags')
            rep.guard(chunked_rows, rep, scratch, what='chunked rows')
        if prop == 'C05':
            # steps created, moved and deleted at run time (also by a step, during the
            # phase): what every step saw of its upstream step, per tick
            from vv import props_store
            props_store.validate(rep, 'C05', props_store.histories(tier, seed), scratch,
                                 label='store-steps')
        if prop == 'C04':
            from vv import props_order
            props_order.permutation_check(rep, tier, seed, scratch)
            # views after structural updates: what the director, an observer and
            # the watcher step are shown must be the committed hierarchy
            from vv import props_store
            hs = props_store.histories(tier, seed)
            hs = hs[-(420 if tier == 'quick' else 3000):]
            props_store.validate(rep, 'C04', hs, scratch, label='store-views')
    return rep.finish()


def replay(prop, path):
    with open(path) as f:
        data = json.load(f)
    sc = data['replay'].get('scenario')
    rep = Report(prop, 'quick', 0)
    if sc is None:
        print('replay file has no scenario (specification-level finding)')
        return 0
    with tlc.Scratch() as scratch:
        validate(rep, prop, [sc], scratch, label='replay')
    return rep.finish(write=False)
