"""Thin wrapper around TLC: run a configuration, parse the outcome."""
import json
import os
import re
import shutil
import subprocess
import tempfile
import time

SPEC_DIR = os.path.join(os.path.dirname(os.path.dirname(os.path.abspath(__file__))), 'spec')
JAVA_CP = '/opt/veriftools/tla/tla2tools.jar:/opt/veriftools/tla/CommunityModules-deps.jar'


class MachineryFailure(Exception):
    pass


class Scratch:
    """A private scratch directory removed on exit."""
    def __init__(self, prefix='verif_'):
        self.prefix = prefix

    def __enter__(self):
        self.path = tempfile.mkdtemp(prefix=self.prefix)
        return self.path

    def __exit__(self, *a):
        shutil.rmtree(self.path, ignore_errors=True)
        return False


class Result:
    def __init__(self):
        self.stdout = ''
        self.rc = None
        self.generated = 0
        self.distinct = 0
        self.depth = 0
        self.violated = []      # names of violated invariants / properties
        self.ok = False
        self.wall = 0.0
        self.coverage = {}
        self.error = None
        self.printed = []       # PrintT tuples as raw strings


def run(module, cfg, scratch, workers=16, timeout=1800, env=None, extra=(),
        simulate=None, depth=None, seed=None, coverage=False, dfs_queue=False,
        continue_=False, heap=None):
    """Run TLC on spec/<module>.tla with spec/<cfg> (or an absolute cfg path)."""
    cfgp = cfg if os.path.isabs(cfg) else os.path.join(SPEC_DIR, cfg)
    meta = os.path.join(scratch, 'meta_%d' % int(time.time() * 1e6))
    os.makedirs(meta, exist_ok=True)
    # (TLC's own temporary directories go into the scratch directory too, not
    #  into the system's: they are removed with it)
    cmd = ['java', '-XX:+UseParallelGC', '-Djava.io.tmpdir=' + meta]
    if heap:
        cmd.append('-Xmx' + heap)
    if dfs_queue:
        cmd.append('-Dtlc2.tool.queue.IStateQueue=StateDeque')
    cmd += ['-cp', JAVA_CP, 'tlc2.TLC', '-workers', str(workers),
            '-metadir', meta, '-noGenerateSpecTE', '-config', cfgp]
    if simulate:
        cmd += ['-simulate', simulate]
    if depth:
        cmd += ['-depth', str(depth)]
    if seed is not None:
        cmd += ['-seed', str(seed)]
    if coverage:
        cmd += ['-coverage', '1']
    if continue_:
        cmd += ['-continue']
    cmd += list(extra)
    cmd.append(os.path.join(SPEC_DIR, module + '.tla'))
    e = dict(os.environ)
    if env:
        e.update(env)
    # Optional cache of runs that do not read anything from the implementation
    # (pure model checking, case tables).  Used by the mutation campaign only, where
    # the same specification runs would otherwise be repeated for every mutant;
    # registered commands never set VERIF_TLC_CACHE.
    ckey = _cache_key(module, cfgp, cmd, env)
    if ckey:
        hit = _cache_get(ckey, env)
        if hit is not None:
            shutil.rmtree(meta, ignore_errors=True)
            return hit
    t0 = time.time()
    res = Result()
    try:
        p = subprocess.run(cmd, cwd=SPEC_DIR, env=e, stdout=subprocess.PIPE,
                           stderr=subprocess.STDOUT, timeout=timeout)
        res.stdout = p.stdout.decode('utf-8', 'replace')
        res.rc = p.returncode
    except subprocess.TimeoutExpired as ex:
        res.stdout = (ex.stdout or b'').decode('utf-8', 'replace')
        res.rc = -9
        res.error = 'timeout'
    res.wall = time.time() - t0
    shutil.rmtree(meta, ignore_errors=True)
    out = res.stdout
    m = re.findall(r'(\d[\d,]*) states generated, (\d[\d,]*) distinct states found', out)
    if m:
        res.generated = int(m[-1][0].replace(',', ''))
        res.distinct = int(m[-1][1].replace(',', ''))
    m = re.search(r'depth of the complete state graph search is (\d+)', out)
    if m:
        res.depth = int(m.group(1))
    res.violated = re.findall(r'Invariant (\S+) is violated', out)
    res.violated += re.findall(r'Action property (\S+) is violated', out)
    if 'Temporal properties were violated' in out:
        res.violated.append('TEMPORAL')
    res.ok = ('Model checking completed. No error has been found.' in out
              or (simulate and res.error == 'timeout' and not res.violated))
    if not res.ok and not res.violated and res.error is None:
        if 'Error:' in out or res.rc not in (0,):
            res.error = 'tlc-error'
    if ckey and res.error is None:
        _cache_put(ckey, res, env)
    return res


def _cache_key(module, cfgp, cmd, env):
    root = os.environ.get('VERIF_TLC_CACHE')
    if not root or (env and any(k not in ('OUT_FILE',) for k in env)):
        return None
    import hashlib
    h = hashlib.sha256()
    for name in sorted(os.listdir(SPEC_DIR)):
        if name.endswith('.tla'):
            with open(os.path.join(SPEC_DIR, name), 'rb') as f:
                h.update(name.encode() + f.read())
    with open(cfgp, 'rb') as f:
        h.update(f.read())
    h.update(module.encode())
    h.update(' '.join(c for c in cmd if 'meta_' not in c and c != cfgp).encode())
    return os.path.join(root, h.hexdigest())


def _cache_get(ckey, env):
    import pickle
    try:
        with open(ckey, 'rb') as f:
            res, blob = pickle.load(f)
    except (OSError, EOFError, pickle.PickleError):
        return None
    if env and env.get('OUT_FILE'):
        if blob is None:
            return None
        with open(env['OUT_FILE'], 'wb') as f:
            f.write(blob)
    return res


def _cache_put(ckey, res, env):
    import pickle
    blob = None
    if env and env.get('OUT_FILE') and os.path.exists(env['OUT_FILE']):
        with open(env['OUT_FILE'], 'rb') as f:
            blob = f.read()
    os.makedirs(os.path.dirname(ckey), exist_ok=True)
    tmp = ckey + '.%d' % os.getpid()
    with open(tmp, 'wb') as f:
        pickle.dump((res, blob), f)
    os.replace(tmp, ckey)


def require_clean(res, what):
    if res.error and not res.violated:
        tail = '\n'.join(res.stdout.splitlines()[-40:])
        raise MachineryFailure('%s: TLC failed (%s)\n%s' % (what, res.error, tail))


def sany(module):
    p = subprocess.run(['java', '-cp', JAVA_CP, 'tla2sany.SANY',
                        os.path.join(SPEC_DIR, module + '.tla')],
                       cwd=SPEC_DIR, stdout=subprocess.PIPE, stderr=subprocess.STDOUT)
    out = p.stdout.decode('utf-8', 'replace')
    return ('Semantic errors' not in out and 'Fatal' not in out
            and 'Could not' not in out and p.returncode == 0), out


_TUPLE = re.compile(r'^<<(.*)>>$')


def printed_tuples(out, tag):
    """Lines printed by PrintT(<<"TAG", ...>>) as lists of raw strings."""
    rows = []
    for line in out.splitlines():
        line = line.strip()
        if line.startswith('<<"%s"' % tag):
            rows.append(line)
    return rows


# ------------------------------------------------------------ trace batches

def _tlc_safe(x):
    """What the Json module of TLC cannot read (null, NaN, Infinity, integers
    beyond 32 bits, floats) becomes a number no specification state holds; a
    record field that carries it then simply fails its rule."""
    if isinstance(x, dict):
        return {str(k): _tlc_safe(v) for k, v in x.items()}
    if isinstance(x, (list, tuple)):
        return [_tlc_safe(v) for v in x]
    if x is None:
        return -778
    if isinstance(x, bool) or isinstance(x, str):
        return x
    if isinstance(x, int):
        return x if -2 ** 31 < x < 2 ** 31 else -779
    if isinstance(x, float):
        if x != x or x in (float('inf'), float('-inf')):
            return -779
        return int(x) if x == int(x) and abs(x) < 2 ** 31 else -777
    return str(x)


def validate_traces(traces, scratch, module='EngineTrace', cfg='EngineTrace.cfg',
                    timeout=1800, label='traces'):
    """Validate a list of traces (lists of records). Returns
    (rejected: {index0: stuck_record_index1}, states, transitions, diag)"""
    traces = _tlc_safe(traces)
    diag = [0] * len(traces)
    path = os.path.join(scratch, label + '.json')
    with open(path, 'w') as f:
        json.dump({'traces': traces, 'diag': diag}, f)
    res = run(module, cfg, scratch, workers=1, timeout=timeout,
              env={'TRACE_FILE': path})
    rej = _parse_rejected(res, label)
    diags = {}
    if rej:
        # second pass: only the rejected traces, with the stuck index marked
        idx = sorted(rej)
        sub = [traces[i] for i in idx]
        dl = [rej[i] for i in idx]
        path2 = os.path.join(scratch, label + '_diag.json')
        with open(path2, 'w') as f:
            json.dump({'traces': sub, 'diag': dl}, f)
        res2 = run(module, cfg, scratch, workers=1, timeout=timeout,
                   env={'TRACE_FILE': path2})
        for line in printed_tuples(res2.stdout, 'DIAG'):
            m = re.match(r'<<"DIAG", (\d+), (\d+), "([a-z]*)", \{(.*)\}>>', line)
            if not m:
                continue
            t = idx[int(m.group(1)) - 1]
            fails = set(x.strip().strip('"') for x in m.group(4).split(',') if x.strip())
            diags.setdefault(t, []).append((m.group(3), fails))
    return rej, res, diags


def _parse_rejected(res, label):
    out = res.stdout
    m = re.search(r'<<"VALIDATED", (\d+), "REJECTED", (\d+)>>', out)
    if not m:
        i = out.find('Error:')
        tail = out[i:i + 3000] if i >= 0 else '\n'.join(out.splitlines()[-40:])
        raise MachineryFailure('trace validation (%s) did not complete\n%s' % (label, tail))
    rej = {}
    for line in printed_tuples(out, 'REJ'):
        mm = re.match(r'<<"REJ", (\d+), (\d+)>>', line)
        if mm:
            rej[int(mm.group(1)) - 1] = int(mm.group(2))
    if res.violated:
        # an invariant of the specification failed on a reconstructed state
        rej.setdefault(-1, 0)
    return rej


def pick_failing_rules(diag_rows):
    """From the rule sets printed at every silent position choose the most
    specific explanation: the smallest set that is not purely structural."""
    best = None
    for pcname, fails in diag_rows:
        if 'struct' in fails:
            continue
        if not fails:
            continue
        if best is None or len(fails) < len(best):
            best = fails
    if best is None:
        best = set()
        for pcname, fails in diag_rows:
            best |= fails
    return best
