"""C05: step phases. TLC over all flows; the real engine over all flows."""
import itertools
import os

from vv import tlc


def steps_cfg(steps, max_seq, invs=True):
    q = lambda xs: '{' + ', '.join('"%s"' % x for x in xs) + '}'
    lines = [
        'SPECIFICATION StepsSpec', 'CONSTANTS',
        '  Procs = {"p1"}', '  Steps = ' + q(steps),
        '  Vars = ' + q(['p1', 's'] + list(steps)),
        '  TS = {1, 2}', '  Intervals = {2}', '  MaxCalls = 1', '  Horizon = 2',
        '  EmitStep = 1', '  Dev = {}', '  SharedW = {}', '  Directors = {}', '  Spare = {}',
        '  InitLive = {"p1"}',
        '  MaxSeq = %d' % max_seq, 'CHECK_DEADLOCK FALSE',
        'INVARIANTS', '  TypeOK', '  C05_DepsAppliedBeforeInvoke',
        '  C05_SeqStepsAlone', '  C05_OncePerPhase', '  C05_SeqFirstInOrder',
        '  C05_SeesBatch', '  C04_Snapshot',
        'PROPERTIES', '  C05_StepsOnlyAfterBatch', '  C05_AllRanAtEnd',
        '  C03_Terminates']
    return '\n'.join(lines) + '\n'


def model_check(rep, tier, scratch):
    cfgs = [('MC_C05_3steps', steps_cfg(['s1', 's2', 's3'], 2))]
    if tier == 'thorough':
        cfgs.append(('MC_C05_4steps', steps_cfg(['s1', 's2', 's3', 's4'], 2)))
    for name, text in cfgs:
        path = os.path.join(scratch, name + '.cfg')
        with open(path, 'w') as f:
            f.write(text)
        res = tlc.run('MC_Steps', path, scratch, workers=16, timeout=2400)
        tlc.require_clean(res, name)
        rep.add_tlc(name, res)
        if res.violated:
            rep.violation({'kind': 'spec', 'config': name, 'violated': res.violated},
                          'specification property %s fails in %s' % (res.violated, name),
                          {'cfg': text, 'tlc_tail': res.stdout[-4000:]})
        elif not res.ok:
            raise tlc.MachineryFailure('%s did not finish: %s' % (name, res.error))


def all_dags(nodes):
    """All acyclic dependency maps over nodes (as dict node -> list of deps)."""
    pairs = [(a, b) for a in nodes for b in nodes if a != b]
    for mask in range(1 << len(pairs)):
        deps = {n: [] for n in nodes}
        for i, (a, b) in enumerate(pairs):
            if mask >> i & 1:
                deps[a].append(b)
        # acyclicity
        seen, ok = {}, True

        def visit(n):
            if seen.get(n) == 1:
                return False
            if seen.get(n) == 2:
                return True
            seen[n] = 1
            for d in deps[n]:
                if not visit(d):
                    return False
            seen[n] = 2
            return True
        for n in nodes:
            if not visit(n):
                ok = False
                break
        if ok:
            yield deps


def dag_scenarios(nsteps, max_seq=2, orders=1, nest=False):
    """One scenario per (deriver ordering, DAG over the remaining steps)."""
    sids = ['s%d' % (i + 1) for i in range(nsteps)]
    out = []
    for k in range(0, max_seq + 1):
        for sq in itertools.permutations(sids, k):
            graph = [s for s in sids if s not in sq]
            for deps in all_dags(graph):
                steps = {}
                for s in sids:
                    d = None if s in sq else deps[s]
                    vars_ = sorted(set([s, 'p1'] + (d or []) + list(sq)))
                    steps[s] = {'vars': vars_, 'deps': d}
                    if nest and d is not None and (sids.index(s) % 2 == 0):
                        steps[s]['group'] = 'ga'
                # declaration order: derivers in sq order, graph steps reversed
                # so that dictionary order never coincides with a valid order
                order = list(sq) + list(reversed(graph))
                out.append({
                    'procs': {'p1': {'vars': ['p1'], 'writes': {}, 'ts': [1, 2],
                                     'cond': [True]}},
                    'order': ['p1'], 'steps': steps, 'step_order': order,
                    'calls': [[3, True]], 'emit_step': 1, 'init': {}})
    return out
