"""C09, C10, C07: structural histories.

TLC model-checks Store.tla (frame and effect conditions of every structural
operation, derivers registered once, exactly the hierarchy's processes and
steps run) and validates, with StoreTrace.tla, the projection of the real
engine after every tick of every enumerated / random structural history."""
import hashlib
import json
import os
import random

from vv import tlc, store_run as sr
from vv.verdict import Report

RULE_OWNER = {
    'tree_shape': ['C09'], 'tree_x': ['C09'], 'origin': ['C09'], 'not_rejected': ['C09'],
    'tree_cnt': ['C10'], 'book': ['C10'], 'published': ['C10'], 'hier': ['C10'],
    'invoked': ['C10'], 'exception': ['C10', 'C09'], 'rebuild': ['C10'],
    # (a stale view is also not 'the committed state' of C04)
    # (... nor the value of the node the process's own updates go to, C06)
    'view': ['C07', 'C04', 'C06'], 'zview': ['C07', 'C05', 'C04', 'C06'], 'seen': ['C05'],
    'leaves': ['C09'],
    # (an update that is dropped was not 'applied exactly once' either: C01 owns no
    #  store histories, C05 and C10 do)
    'bystander': ['C05', 'C10'],
    'update_object': ['C09'],
}

MC_PROPS = {
    'C09': ([], ['C09_Frame', 'C09_Effects', 'C09_AddExistingRejected']),
    'C10': (['C10_DeriversOnce', 'C10_RanExactlyHierarchy'], []),
    'C07': (['C10_RanExactlyHierarchy'], ['C09_Frame']),
}

INITIALS = [
    [],
    [('agents', 'a', 'T1', 2)],
    [('agents', 'a', 'T2', 0), ('agents', 'b', 'T3', 1)],
    [('agents', 'a', 'T4', 0), ('pool', 'b', 'T1', 0)],
    [('agents', 'a', 'T2', 0), ('agents', 'b', 'T2', 0), ('agents', 'c', 'T5', 1)],
]


def model_of(initial):
    m = {'agents': {}, 'pool': {}}
    for b, k, tpl, x0 in initial:
        m[b][k] = tpl
    return m


def mc_cfg(prop, names, tpls, ticks, comps):
    inv, act = MC_PROPS[prop]
    q = lambda xs: '{' + ', '.join('"%s"' % x for x in xs) + '}'
    lines = ['SPECIFICATION Spec', 'CONSTANTS', '  Names = ' + q(names), '  Tpls = ' + q(tpls),
             '  MaxTicks = %d' % ticks, '  MaxComps = %d' % comps, 'CHECK_DEADLOCK FALSE',
             'INVARIANTS', '  TypeOK'] + ['  ' + i for i in inv]
    if act:
        lines += ['PROPERTIES'] + ['  ' + a for a in act]
    return '\n'.join(lines) + '\n'


def model_check(rep, prop, tier, scratch):
    if tier == 'quick':
        # (three names x two ticks and two names x three ticks: 8 k + 59 k states;
        #  three names x three ticks is 296 k states and 1.5 minutes - thorough)
        cfgs = [('q2', (['a', 'b', 'c'], ['T1', 'T2', 'T3'], 2, 3)),
                ('q3', (['a', 'b'], ['T1', 'T2', 'T3'], 3, 3))]
    else:
        cfgs = [('t33', (['a', 'b', 'c'], ['T1', 'T2', 'T3'], 3, 3)),
                ('t3', (['a', 'b', 'c'], ['T1', 'T2', 'T3', 'T4'], 3, 3)),
                ('t4', (['a', 'b', 'c', 'd'], ['T2', 'T3'], 3, 4))]
    for name, args in cfgs:
        cfgname = 'MC_Store_%s_%s' % (prop, name)
        path = os.path.join(scratch, cfgname + '.cfg')
        text = mc_cfg(prop, *args)
        with open(path, 'w') as f:
            f.write(text)
        res = tlc.run('Store', path, scratch, workers=16, timeout=2400)
        tlc.require_clean(res, cfgname)
        rep.add_tlc(cfgname, res)
        if res.violated:
            rep.violation({'kind': 'spec', 'config': cfgname, 'violated': res.violated},
                          'specification property %s fails in %s' % (res.violated, cfgname),
                          {'cfg': text, 'tlc_tail': res.stdout[-4000:]})
        elif not res.ok:
            raise tlc.MachineryFailure('%s did not finish: %s' % (cfgname, res.error))


def histories(tier, seed):
    """every applicable sequence of two operations (each issued by the director
    process or by the director step) from each initial hierarchy - sampled in
    the quick tier, extended by a random third and fourth operation in the
    thorough tier - plus random longer histories"""
    rng = random.Random(seed + 9)
    out = []
    for ini in INITIALS:
        hs = list(sr.all_histories(2, model_of(ini), names=['a', 'b', 'c'],
                                   tpls=('T1', 'T2', 'T3')))
        if tier == 'quick':
            rng.shuffle(hs)
            hs = hs[:140]
        else:
            ext = []
            for h in hs:
                if h[-1]['op'] == 'addex':
                    ext.append(h)
                    continue
                m = model_of(ini)
                for o in h:
                    m = sr.apply_model(m, o)
                tail = sr.random_history(rng, 2, m, names=['a', 'b', 'c'],
                                         tpls=('T1', 'T2', 'T3', 'T4', 'T5'), max_comps=4)
                ext.append(h + tail)
            hs = ext
        out += [(ini, h) for h in hs]
    nrand = 300 if tier == 'quick' else 3000
    for i in range(nrand):
        ini = rng.choice(INITIALS)
        out.append((ini, sr.random_history(rng, rng.randint(3, 8), model_of(ini),
                                           names=['a', 'b', 'c', 'd'],
                                           tpls=('T1', 'T2', 'T3', 'T4', 'T5'), max_comps=4)))
    # bare glob declarations ({'*': {}}): a branch that loses its last child has
    # neither children nor a sub-schema.  Variables-only compartments cannot be
    # expressed there (nobody declares their variable), so no add operations.
    nbare = 120 if tier == 'quick' else 1200
    k = 0
    while k < nbare:
        ini = rng.choice(INITIALS[1:])
        h = sr.random_history(rng, rng.randint(2, 6), model_of(ini), names=['a', 'b', 'c'],
                              tpls=('T1', 'T2', 'T3', 'T4'), max_comps=3)
        if any(o['op'] in ('add', 'addex', 'adddel', 'add2') or o.get('tpl') == 'T0' for o in h):
            continue
        h = [dict(o) for o in h]
        h[0]['bare'] = True
        out.append((ini, h))
        k += 1
    # nested flows: the steps of template T2 one level down in the compartment
    for _ in range(100 if tier == 'quick' else 1000):
        ini = rng.choice(INITIALS)
        h = sr.random_history(rng, rng.randint(2, 6), model_of(ini), names=['a', 'b', 'c'],
                              tpls=('T2', 'T2', 'T1', 'T4'), max_comps=3)
        h = [dict(o) for o in h]
        h[0]['nest2'] = True
        out.append((ini, h))
    # the directors' glob ports wired by a dictionary ({'_path': .., '*': {}}):
    # their structural updates go through another branch of the update's way back
    for _ in range(80 if tier == 'quick' else 800):
        ini = rng.choice(INITIALS)
        h = sr.random_history(rng, rng.randint(2, 5), model_of(ini), names=['a', 'b', 'c'],
                              tpls=('T1', 'T2', 'T3', 'T4'), max_comps=3)
        # (deletions sent to the root or through '..' use the other ports)
        h = [dict(o) for o in h]
        h[0]['gdict'] = True
        out.append((ini, h))
    return out


def hist_hash(ini, ops):
    return hashlib.sha1(json.dumps([ini, ops], sort_keys=True).encode()).hexdigest()[:16]


def interesting(prop, ops):
    kinds = {o['op'] for o in ops}
    if prop == 'C09':
        return len(kinds - {'none'}) >= 2
    if prop == 'C10':
        return bool(kinds & {'div', 'divx', 'move', 'moveupd', 'moveback', 'gendel', 'gen2'})
    if prop == 'C05':
        return any(o.get('mode') == 'step' for o in ops) or any(o.get('tpl') in ('T2', 'T4', 'T5') for o in ops)
    return bool(kinds & {'add', 'add2', 'gen', 'div', 'divx', 'move', 'del', 'delpath'})


def validate(rep, prop, hists, scratch, label='store'):
    traces = []
    for ini, ops in hists:
        recs, _ = sr.run_history(ops, initial=ini)
        traces.append(recs)
    rej, res, diags = tlc.validate_traces(traces, scratch, module='StoreTrace',
                                          cfg='StoreTrace.cfg', label=label)
    rep.add_tlc('StoreTrace(%s)' % label, res)
    rep.traces += len(traces) - len([t for t in rej if t >= 0])
    rep.evaluations += len(traces)
    for ini, ops in hists:
        if interesting(prop, ops):
            rep.nontrivial.add(hist_hash(ini, ops))
    if hists:
        rep.add_sample({'initial': hists[len(hists) // 2][0], 'ops': hists[len(hists) // 2][1]})
    other = {}
    if res.violated:
        owners = {v[:3] for v in res.violated}
        if prop in owners:
            rep.violation({'kind': 'trace-invariant', 'violated': sorted(res.violated)},
                          'invariant %s fails on a state reconstructed from an implementation '
                          'trace' % res.violated, {'tlc_tail': res.stdout[-5000:]})
    for t, stuck in sorted(rej.items()):
        if t < 0:
            continue
        rules = tlc.pick_failing_rules(diags.get(t, []))
        owners = set()
        if 'op_not_applicable' in rules or not rules:
            # The histories are generated from a model of the operations that
            # agrees with the specification: when the specification cannot take the
            # step the implementation took, and no rule names the difference, the
            # hierarchy has come apart from the specification earlier than the
            # rules could tell (C09: it did not change as specified; C10: the
            # engine no longer runs it).
            rules = sorted(set(rules) | {'unexplained'})
            owners.update(['C09', 'C10'])
        for r in rules:
            owners.update(RULE_OWNER.get(r, []))
        # an exception out of update(): the operations were not all carried out
        # (C09) and the engine no longer runs the hierarchy (C10); when it comes
        # from rebuilding the views it is C07's
        if 'exception' in rules:
            owners.add('C09')
            rec0 = traces[t][stuck - 1] if 0 < stuck <= len(traces[t]) else {}
            if 'not a valid path' in rec0.get('exc_text', '') or 'topology_view' in rec0.get('exc_text', ''):
                owners.add('C07')
        if prop in owners:
            ini, ops = hists[t]
            rec = traces[t][stuck - 1] if 0 < stuck <= len(traces[t]) else {}
            opsig = [o['op'] for o in ops[:max(stuck - 1, 1)]]
            rep.violation(
                {'kind': 'trace', 'rules': sorted(r for r in rules if prop in RULE_OWNER.get(r, []) or r == 'exception'),
                 'last_op': rec.get('op', {}).get('op'), 'history': hist_hash(ini, ops)},
                'structural history rejected at tick %d (op %s%s): rules %s; history %s from %s'
                % (stuck - 1, json.dumps(rec.get('op')),
                   (' raised ' + rec.get('exc_text', '')) if rec.get('exc') else '',
                   sorted(rules), json.dumps(ops), json.dumps(ini)),
                {'initial': ini, 'ops': ops, 'stuck_at': stuck, 'rules': sorted(rules),
                 'record': rec})
        else:
            for o in owners:
                other[o] = other.get(o, 0) + 1
    if other:
        rep.notes['rejected_traces_attributed_elsewhere'] = other


def runtime_declarations(rep):
    """C09 (_generate 'inserts the given processes, topology and initial state')
    read together with InitState.tla (a declared variable holds the given value,
    its default otherwise): a process generated at run time (or handed to a
    daughter at a division) whose port is wired outside its new compartment
    declares a variable there.  No state is given for it: it must hold its
    default from the moment it exists, for plain, nested and '_path'
    topologies."""
    from vivarium.core.engine import Engine
    from vivarium.core.process import Process

    class Late(Process):
        defaults = {'time_step': 1}

        def ports_schema(self):
            return {'out': {'fresh': {'_default': 7, '_emit': True}},
                    'own': {'mine': {'_default': 3, '_emit': True}}}

        def next_update(self, timestep, states):
            return {'out': {'fresh': 1}, 'own': {'mine': 1}}

    class Own(Process):
        defaults = {'time_step': 1}

        def ports_schema(self):
            return {'own': {'mine': {'_default': 3, '_emit': True}}}

        def next_update(self, timestep, states):
            return {}

    class Maker(Process):
        defaults = {'time_step': 1, 'topology': None, 'divide': False}

        def ports_schema(self):
            return {'agents': {'*': {}}}

        def next_update(self, timestep, states):
            if getattr(self, 'done', False):
                return {}
            self.done = True
            if self.parameters['divide']:
                return {'agents': {'_divide': {'mother': 'm', 'daughters': [
                    {'key': k, 'processes': {'late': Late()},
                     'topology': {'late': self.parameters['topology']}, 'initial_state': {}}
                    for k in ('n', 'n2')]}}}
            return {'agents': {'_generate': [{
                'key': 'n', 'processes': {'late': Late()},
                'topology': {'late': self.parameters['topology']},
                'initial_state': {}}]}}
    forms = {
        'plain': ({'out': ('..', '..', 'shared'), 'own': ('own',)}, ('shared', 'fresh')),
        'nested': ({'out': ('..', 'side', 'deep'), 'own': ('own',)},
                   ('agents', 'side', 'deep', 'fresh')),
        '_path': ({'out': {'_path': ('..', '..', 'shared2')}, 'own': ('own',)},
                  ('shared2', 'fresh')),
    }
    for name, (topo, where) in [(n + d, f) for n, f in forms.items() for d in ('', ' divide')]:
        rep.evaluations += 1
        sig = {'kind': 'runtime-declaration', 'topology': name}
        div = name.endswith('divide')
        try:
            procs = {'maker': Maker({'topology': topo, 'divide': div})}
            tp = {'maker': {'agents': ('agents',)}}
            if div:
                procs['agents'] = {'m': {'p0': Own()}}
                tp['agents'] = {'m': {'p0': {'own': ('own',)}}}
            eng = Engine(processes=procs, topology=tp,
                         initial_state={} if div else {'agents': {}},
                         display_info=False, emitter='null')
            eng.update(1)
            after1 = eng.state.get_path(where).value
            own1 = eng.state.get_path(('agents', 'n', 'own', 'mine')).value
            eng.update(1)
            after2 = eng.state.get_path(where).value - (1 if div else 0)   # two daughters
        except Exception as e:
            rep.violation(sig, 'C09 a process generated at run time that declares a variable '
                          'outside its compartment (%s topology %r): %r' % (name, topo, e), {})
            continue
        if (after1, own1, after2) != (7, 3, 8):
            rep.violation(sig, 'C09 a process generated at run time declares %r outside its '
                          'compartment (%s topology): after the _generate it holds %r (default '
                          '7), its own variable %r (default 3), one update later %r (expected 8)'
                          % (where, name, after1, own1, after2), {})
        rep.nontrivial.add('runtime-declaration-' + name)


def composite_kept_current(rep):
    """C10 'the published composite ... describes the hierarchy': an engine built
    from a Composite keeps that Composite current.  Here the composite starts
    without any step or flow; a compartment with two flow steps is generated
    at run time, and the Composite object must then list its processes, steps,
    flow and topology, so that an engine built from it runs the steps in flow
    order."""
    from vivarium.core.engine import Engine
    from vivarium.core.process import Process
    from vivarium.core.composer import Composite
    from vivarium.library.topology import get_in

    class Maker(Process):
        defaults = {'time_step': 1}

        def ports_schema(self):
            return {'agents': {'*': {}}}

        def next_update(self, timestep, states):
            if getattr(self, 'done', False):
                return {}
            self.done = True
            t = sr.template('T2', 0)
            t['key'] = 'n'
            return {'agents': {'_generate': [t]}}
    for given in ('nothing', 'empty dictionaries'):
        rep.evaluations += 1
        sig = {'kind': 'composite-kept-current', 'given': given}
        try:
            parts = {'processes': {'maker': Maker()},
                     'topology': {'maker': {'agents': ('agents',)}}}
            if given != 'nothing':
                parts.update(steps={}, flow={})
            comp = Composite(parts)
            eng = Engine(composite=comp, initial_state={'agents': {}}, display_info=False,
                         emitter='null')
            eng.update(2)
            got = {'flow': get_in(comp['flow'], ('agents', 'n')),
                   'steps': sorted(get_in(comp['steps'], ('agents', 'n')) or {}),
                   'processes': sorted(get_in(comp['processes'], ('agents', 'n')) or {}),
                   'topology': sorted(get_in(comp['topology'], ('agents', 'n')) or {})}
        except Exception as e:
            rep.violation(dict(sig, what='raised'),
                          'C10 an engine built from a composite without steps, generating a '
                          'compartment with flow steps, raised %r' % (e,), {})
            continue
        want = {'flow': {'s1': [], 's2': [('s1',)]}, 'steps': ['s1', 's2'],
                'processes': ['p'], 'topology': ['p', 's1', 's2']}
        if got != want:
            rep.violation(sig, 'C10 the Composite an engine was built from (steps and flow: %s) '
                          'lists for the generated compartment %r, the hierarchy holds %r'
                          % (given, got, want), {})
        rep.nontrivial.add('composite-kept-current-' + given)


def nested_moves(rep, prop='C09'):
    """C09 '_move detaches the source subtree and attaches it - values, processes
    and their relative wiring intact - under the target', for a source named by a
    path of two elements (Store.tla moves compartments named by one key): the
    subtree keeps its relative place below the target, the very node moves, its
    process keeps running there, its sibling stays, nothing else changes."""
    from vivarium.core.engine import Engine
    from vivarium.core.process import Process

    class Tick(Process):
        defaults = {'time_step': 1, 'views': None}

        def ports_schema(self):
            # 'up' is wired to a store next to the compartment: the relative
            # wiring is resolved from where the compartment is
            return {'count': {'n': {'_default': 0, '_emit': True}},
                    'up': {'s': {'_default': 0}}}

        def next_update(self, timestep, states):
            if self.parameters['views'] is not None:
                self.parameters['views'].append(states['up']['s'])
            return {'count': {'n': 1}}

    class Shared(Process):
        """declares the stores 'shared' the compartments are wired to"""
        defaults = {'time_step': 1, 'stores': ('a', 'ax', 'b', 'bx')}

        def ports_schema(self):
            return {k: {'s': {'_default': 0}} for k in self.parameters['stores']}

        def next_update(self, timestep, states):
            return {}

    class Mover(Process):
        defaults = {'time_step': 1, 'move': None}

        def ports_schema(self):
            return {'a': {'*': {}}, 'b': {'*': {}}}

        def next_update(self, timestep, states):
            self.calls = getattr(self, 'calls', 0) + 1
            if self.calls == 2:
                return {'a': {'_move': [self.parameters['move']]}}
            return {}
    for source, holder in ((('x', 'y'), ('A', 'x')), (('x',), ('A',))):
        rep.evaluations += 1
        sig = {'kind': 'nested-move', 'source': list(source)}
        views = []
        # (when x itself moves, B holds no x beforehand and x/shared moves along)
        stores = ('a', 'ax', 'b', 'bx') if len(source) == 2 else ('a', 'ax', 'b')
        after = 220 if len(source) == 2 else 120
        inner = {'y': {'tick': Tick({'views': views})}, 'z': {'tick': Tick()}}
        inner_topo = {k: {'tick': {'count': ('count',), 'up': ('..', 'shared')}} for k in inner}
        try:
            eng = Engine(
                processes={'mover': Mover({'move': {'source': source, 'target': 'b'}}),
                           'shared': Shared({'stores': stores}), 'A': {'x': inner}},
                topology={'mover': {'a': ('A',), 'b': ('B',)},
                          'shared': {k: v for k, v in {
                              'a': ('A', 'shared'), 'ax': ('A', 'x', 'shared'),
                              'b': ('B', 'shared'), 'bx': ('B', 'x', 'shared')}.items()
                              if k in stores},
                          'A': {'x': inner_topo}},
                initial_state={'A': {'shared': {'s': 110}, 'x': {'shared': {'s': 120}}},
                               'B': dict({'shared': {'s': 210}},
                                         **({'x': {'shared': {'s': 220}}} if 'bx' in stores
                                            else {}))},
                display_info=False, emitter='null')
            eng.update(1)
            moved = eng.state.get_path(('A',) + source)
            other = eng.state.get_path(('A', 'x', 'z'))
            eng.update(1)
            eng.update(1)
            now = eng.state.get_path(('B',) + source)
        except Exception as e:
            rep.violation(sig, 'C09 a _move whose source is the path %r raised %r'
                          % (source, e), {})
            continue
        problems = []
        if now is not moved:
            problems.append('the node at B/%s is not the node that was at A/%s'
                            % ('/'.join(source), '/'.join(source)))
        holder_node = eng.state.get_path(holder)
        if source[-1] in holder_node.inner:
            problems.append('the source is still under A')
        if source == ('x', 'y'):
            if eng.state.get_path(('A', 'x', 'z')) is not other \
                    or other.get_path(('count', 'n')).value != 3:
                problems.append('the sibling A/x/z changed')
            counts = [now.get_path(('count', 'n')).value]
        else:
            counts = [now.get_path((k, 'count', 'n')).value for k in ('y', 'z')]
        # (the update of the moved process that is due in the tick of the move arrives too)
        if any(c != 3 for c in counts):
            problems.append('the moved process(es) counted %r in 3 ticks' % (counts,))
        want = {('B',) + source + (('tick',) if len(source) == 2 else (k, 'tick'))
                for k in ('y', 'z')} if len(source) == 1 else {('B', 'x', 'y', 'tick')}
        have = {p for p in eng.process_paths if p[0] == 'B'}
        if have != want:
            problems.append('the engine lists the processes %s under B, expected %s'
                            % (sorted(have), sorted(want)))
        # the process of y reads the store 'shared' next to y: A/x/shared before
        # the move, B/x/shared wherever y has moved with or without x
        if not views or views[0] != 120 or views[-1] != after or set(views) - {120, after}:
            problems.append('the moved process read %r through its port wired to '
                            "('..', 'shared'), expected 120 (A/x/shared) before and %d "
                            '(B/x/shared) after the move' % (views, after))
        if prop == 'C07':
            problems = [p for p in problems if 'wired to' in p]
        if problems:
            rep.violation(sig, '%s a _move whose source is the path %r: %s'
                          % (prop, source, '; '.join(problems)), {})
        rep.nontrivial.add('nested-move-%d' % len(source))


def check(prop, tier, seed):
    rep = Report(prop, tier, seed)
    rep.rule = ('TLC: exhaustive model checking of Store.tla; implementation: every '
                'applicable sequence of structural operations of length 2 (quick) / 3 '
                '(thorough) from four initial hierarchies plus seeded random histories of '
                'length 3-8, one operation per tick, each tick projected (tree, node '
                'identities, engine bookkeeping, published composite, invocations, views) '
                'and validated against StoreTrace.tla; non-trivial = histories combining '
                'several kinds of operations (C09), containing divide/move (C10), changing '
                'the set of children seen through a glob port (C07)')
    rep.assumptions = ['all timesteps are 1 and the director is listed first (its update is '
                       'applied first); compartments use the set divider for x',
                       'the update of a process whose compartment another update of the same '
                       'tick moves arrives at the compartment in its new place']
    with tlc.Scratch() as scratch:
        model_check(rep, prop, tier, scratch)
        validate(rep, prop, histories(tier, seed), scratch)
        if prop == 'C09':
            rep.guard(runtime_declarations, rep, what='runtime declarations')
            rep.guard(nested_moves, rep, what='moves of nested sources')
        if prop == 'C10':
            from vv import props_engine
            props_engine.struct_check(rep, tier, seed, scratch)
            rep.guard(composite_kept_current, rep, what='the composite an engine was built from')
        if prop == 'C07':
            from vv import prop_c07_static
            prop_c07_static.run(rep, tier, scratch)
            rep.guard(nested_moves, rep, 'C07', what='views after moves of nested sources')
    return rep.finish()


def replay(prop, path):
    with open(path) as f:
        data = json.load(f)
    rp = data.get('replay', {})
    rep = Report(prop, 'quick', 0)
    if 'ops' in rp:
        with tlc.Scratch() as scratch:
            validate(rep, prop, [([tuple(x) for x in rp['initial']], rp['ops'])], scratch,
                     label='replay')
    return rep.finish(write=False)
