"""Regenerates /verif/MANIFEST.json from the table below (python -m vv.mkmanifest)."""
import json
import os

ROOT = os.path.dirname(os.path.dirname(os.path.abspath(__file__)))

TECH = ('TLA+ specification + TLC model checking + trace validation of the '
        'implementation against the specification')
TECH_TABLE = ('TLA+ specification of the function + TLC enumeration of its '
              'small-scope domain (laws as invariants) + one implementation '
              'test per TLC-computed case')

ENGINE_TEXT = ('TLC exhaustively checks the %s of Engine.tla for small constants, '
               'and every recorded execution of the real engine (systematic + random '
               'scenarios) must be accepted record-by-record by EngineTrace.tla, which '
               're-evaluates the same invariants on the reconstructed states.')
ENGINE_NOTE = ('Bounded: TLC constants are listed in the evidence; conformance covers '
               'the scenarios generated (seeded); probes are trusted to log faithfully.')

CLAIMED = {
    'C01': ('5/C01', ENGINE_TEXT % 'exactly-once / on-time / ledger clauses', ENGINE_NOTE, TECH),
    'C02': ('5/C02', ENGINE_TEXT % 'handed-timestep = interval-length, contiguity and completion-after-update() clauses', ENGINE_NOTE, TECH),
    'C03': ('5/C03', ENGINE_TEXT % 'monotone clock, exact landing, progress and termination (liveness under weak fairness) clauses' +
            ' Clock.tla abstracts the time rules to unbounded integer times and timesteps (three processes): Apalache discharges its inductive invariant and, from it, no overshoot, monotonicity, progress of every iteration, timestep = interval and application on time; the same invariant is a TLC invariant of Engine.tla at the loop head (C03_ClockIndInv).', ENGINE_NOTE + ' Clock.tla is tied to Engine.tla by the shared invariant, not by a refinement proof.', TECH + ' + Apalache inductive invariant of the abstracted time rules'),
    'C04': ('5/C04', ENGINE_TEXT % 'one-snapshot-per-poll-pass / per-layer clauses' +
            ' In addition every scenario is re-run under permutations of the listing order of processes, flow steps, variables and initial-state keys; each permuted run must be accepted and deliver identical rows.', ENGINE_NOTE, TECH),
    'C05': ('5/C05', 'TLC checks the step-phase clauses of Engine.tla from every initial flow (all DAGs over 3-4 steps x deriver orderings); one real engine per flow is run and its step/apply records validated against EngineTrace.tla. Store histories in which a step issues the structural operations are validated by StoreTrace.tla: what every step saw of its upstream step, the view of a step in the next layer, and that the ordinary update of a step later in the layer of a structural one is applied (rule bystander).', ENGINE_NOTE, TECH),
    'C12': ('5/C12', ENGINE_TEXT % 'row timing (after steps, at now, one per batch / per passed deadline) clauses' +
            ' Row content is compared with the committed state reconstructed from the apply records. Rows with units and custom serializers, chunked rows and branch-level emit flags (store_schema and Store.set_emit_values over schema-less, nested and later-added variables) are compared with what the hierarchy holds.', ENGINE_NOTE, TECH),
}

TABLE_NOTE = ('Bounded small-scope domain (constants in the evidence); the abstract values are '
              'instantiated with concrete carriers by the harness; comparison code is trusted.')

EXTRA = {
    'C06': ('5/C06', 'Topology.tla defines one resolution function R from (process location, port kind, topology entry, variable) to a hierarchy node for leaf/branch/nested/glob/output ports and path / _path-dictionary topologies; TLC enumerates every well-formed combination and exports R; one real Engine per case: the view must show exactly the values of the nodes R names and after one update exactly those nodes changed, by the sum of the amounts of the variables wired to them; every case also with updates that name their updater and with an updater that keeps every (mostly falsy) update it receives; in addition the views of a sample of structural histories are validated by StoreTrace.tla (rules view / zview). Colliding dictionary-valued updates are a recorded finding (known_findings.jsonl).', TABLE_NOTE, TECH_TABLE),
    'C11': ('5/C11', 'Dividers.tla defines every divider as a relation between the mother value and the admissible daughter pairs and states the promised laws (totals conserved, even split, copies, zeros, key partition); TLC checks the laws for all values 0..8 / key sets and exports the relation; real compartments are divided by a real engine (depth 1-2, explicit daughter state, null/no_divide, branch-level and topology/config dividers, float and quantity carriers, two generations, mutable values) and the observed daughters must lie in the relation and be independent afterwards.', TABLE_NOTE, 'TLA+ specification of the divider relations + TLC law checking + validation of observed implementation outcomes against the TLC-computed relation'),
    'C13': ('5/C13', 'Parallel.tla specifies the command protocol between the engine and the OS worker of a parallel process (send / receive / end with draining / join); TLC checks that a command is never sent while one is pending, nothing is used after its end, end() always terminates and leaves the worker exited, and that the pinned end() violates this. Protocol scenarios (delete / divide / move of a subtree whose parallel process is idle, due in the same batch or has an update in flight; an exception aborting an update; end() once, twice or never before garbage collection) are recorded through guarded hooks in ParallelProcess and validated, with the observed sets of live OS workers, by ParallelTrace.tla. Every protocol scenario is run again with serial processes and the values of the whole hierarchy (including a store outside the compartments that the compartment processes write to) are compared after every update. Serial-vs-parallel differential runs compare rows, final state, front and process paths.', 'OS-level behaviour (worker alive / reaped) is observed, not modelled; hangs are detected by a 60 s watchdog; bounded scenario families (seeded).', TECH),
    'C14': ('5/C14', 'Serialize.tla defines serialize/deserialize over abstract value trees (13 leaf classes, list/tuple/set/dict/non-string-key containers) and TLC checks: TypeError exactly for unsupported values and non-string keys, plain output, idempotence, round trip to the canonical form, plain data unchanged; every tree is bound to concrete witnesses and run through serialize_value/deserialize_value, the result abstracted back and compared.', 'TLA+ has no floats: the specification decides dispatch and structure of the codec; fidelity of magnitudes is exercised at a catalogue of witnesses (0, -1.5, 1e300, 5e-324, 2^53-1, nan, +-inf; g, mg/L, fL, mmol/L**2), not for all floats.', TECH_TABLE),
    'C15': ('5/C15', 'InitState.tla (on Topology.tla) gives, for every case and every subset of nodes named in the initial state, the value every declared node must hold (explicit or default), and classifies pairs of declarations of one variable as compatible or not; each is executed through Engine, generate_state, Composite.initial_state/default_state/generate_store.', TABLE_NOTE, TECH_TABLE),
    'C07': ('5/C07', 'Store.tla specifies the hierarchy under structural updates; every tick of every enumerated/random structural history is projected and validated by StoreTrace.tla, including what the director (glob ports on both branches) and an observer (glob port restricted to one declared sub-variable, plain port, output port) saw at the start of the tick; in addition every Topology.tla case is checked for the exact shape of the states dictionary.', 'Bounded: Store.tla constants in the evidence; all timesteps 1 and the director listed first; projection code (vv/store_run.py) is trusted.', TECH),
    'C09': ('5/C09', 'TLC checks frame and effect conditions of _add/_delete (key and path form)/_generate/_divide/_move and combined updates on Store.tla; every tick of every enumerated/random structural history run on the real engine is projected (tree shape, values, node identities) and validated by StoreTrace.tla.', 'Bounded: Store.tla constants in the evidence; all timesteps 1 and the director listed first; projection code (vv/store_run.py) is trusted.', TECH),
    'C10': ('5/C10', 'TLC checks on Store.tla that derivers are registered once and exactly the processes and steps of the hierarchy run each tick; StoreTrace.tla validates per tick the engine bookkeeping (process paths, step paths, deriver list, step graph), the published composite (Engine.processes/steps/flow/topology) and Store.get_processes/get_steps/get_flow against the observed hierarchy, the set of invocations and the step counters.', 'Bounded: Store.tla constants in the evidence; all timesteps 1 and the director listed first; projection code (vv/store_run.py) is trusted.', TECH),
    'C08': ('5/C08', 'Updaters.tla defines each updater, overrides, batches (left fold), _multi_update, merge, dict_value and unit handling; TLC checks the algebraic laws on every enumerated case and exports the expected results; each case is executed through Store.apply_update with int/float/numpy/quantity carriers, also checking that unmentioned variables and the update object are untouched.', TABLE_NOTE, TECH_TABLE),
    'C18': ('5/C18', 'Timeseries.tla defines raw data, the embedded and path timeseries and query results over value atoms that include the falsy values and quantities; TLC checks alignment / read-back / query-completeness laws on every enumerated history and exports the expected views; each history is pushed through a real RAMEmitter and get_data(query), get_data_deserialized, get_data_unitless, get_timeseries, get_path_timeseries and the *_from_data converters are compared.', TABLE_NOTE, TECH_TABLE),
    'C19': ('5/C19', 'Timeline.tla is a behavioural specification of the timeline process (events fire at the first tick whose clock reached them, exactly once, merged in time order); TLC checks on-time/exactly-once/order-freeness over every timeline (all listing orders) x timestep x run length, ties the behaviours to the exported row table (RowsAgree), and every run is executed in a real Engine (TimelineProcess wired by hand and through add_timeline) and compared row by row.', TABLE_NOTE, 'TLA+ behavioural specification + TLC model checking + replay of every TLC-computed behaviour into the implementation'),
    'C16': ('5/C16', 'Composite.tla specifies generate-at-a-path and merge (composite or loose parts, with a path) over a heap of composite objects; TLC checks that a merge changes only its target, equals the union under the path (later entries winning) and that generated composites lie under their path; merge histories are executed on real Composite objects, every object is projected after every action and the trace is validated by CompositeTrace.tla (the histories include Run: an engine built from a composite that has a state, with an engine initial state naming the same stores, leaves every object as it was); on top, Engine(composite=...), Engine(processes=..., ...) and Engine(store=generate_store()) are run for every embedding path and merge variant and must emit identical data (equal up to the path prefix for embedded composites), and schema overrides (nested, not leaking into the composer) / MetaComposer / steps listed among the processes are exercised. A process that defines initial_state() starts differently through generate_store(): recorded finding (known_findings.jsonl).', 'Bounded histories (constants in the evidence); equality of the emitted data across entry points is compared by the harness.', TECH),
    'C17': ('5/C17', 'Paths.tla defines lexical normalisation, tree navigation, path_to/path_for and the dictionary-path helpers; TLC checks the path laws on every tree x start node x path (and dictionary x path) within the bound and exports the expected results; every row is executed against Store.get_path/path_to/path_for/top, normalize_path, get_in/assoc_path/assoc_in/delete_in/update_in/dict_to_paths/paths_to_dict/hierarchy_depth.', TABLE_NOTE, TECH_TABLE),
}


def main():
    props = [json.loads(l) for l in open(os.path.join(ROOT, 'properties.jsonl'))]
    table = dict(CLAIMED)
    table.update(EXTRA)
    na_path = os.path.join(ROOT, 'vv', 'not_applicable.json')
    na_reasons = json.load(open(na_path)) if os.path.exists(na_path) else {}
    checks = []
    for p in props:
        pid = p['id']
        if pid not in table:
            continue
        ref, text, note, tech = table[pid]
        checks.append({
            'property_id': pid,
            'quick_cmd': './check %s --tier quick' % pid,
            'thorough_cmd': './check %s --tier thorough' % pid,
            'evidence_file': '/verif/evidence/%s.json' % pid,
            'replay_cmd_template': './check %s --replay {path}' % pid,
            'engine': 'tlc',
            'level_claimed': {'category': 'model_checking', 'text': text,
                              'design_ref': 'DESIGN.md section ' + ref},
            'level_note': note,
            'technique': tech,
        })
    na = [{'property_id': p['id'],
           'reason': na_reasons.get(p['id'], 'check not built yet (work in progress; a TLA+ model is planned, see DESIGN.md section 5)')}
          for p in props if p['id'] not in table]
    m = {
        'version': 1,
        'setup_cmd': './check --setup',
        'hooks': {
            'guard': 'VIVARIUM_CORE_VERIF',
            'enable': 'export VIVARIUM_CORE_VERIF=1 (set by ./check; observations come from probe processes, a custom updater and a custom emitter under /verif/vv, plus the guarded hooks listed in source_commits)',
            'baseline_off_cmd': 'cd /repo && env -u VIVARIUM_CORE_VERIF /venv/bin/python -m pytest -ra -q -p no:cacheprovider --timeout=900 --continue-on-collection-errors',
            'source_commits': json.load(open(os.path.join(ROOT, 'vv', 'hook_commits.json'))) if os.path.exists(os.path.join(ROOT, 'vv', 'hook_commits.json')) else [],
            'add_only': True,
        },
        'engines': [{'name': 'tlc', 'path': '/opt/veriftools/tla/tla2tools.jar',
                     'serves_properties': [c['property_id'] for c in checks],
                     'kind_free_text': 'TLC 1.8 explicit-state model checker; specifications under /verif/spec, harness under /verif/vv'}],
        'checks': checks,
        'not_applicable': na,
        'notes': 'See DESIGN.md. Exit codes: 0 held, 1 VIOLATION, 2 machinery failure.',
    }
    with open(os.path.join(ROOT, 'MANIFEST.json'), 'w') as f:
        json.dump(m, f, indent=1)
    try:
        import jsonschema
        jsonschema.validate(m, json.load(open('/root/.vp/MANIFEST.schema.json')))
        print('MANIFEST.json valid, %d checks, %d not_applicable' % (len(checks), len(na)))
    except ImportError:
        print('written (jsonschema not available)')


if __name__ == '__main__':
    main()
