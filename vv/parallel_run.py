"""Parallel processes (C13): protocol scenarios recorded through the hooks in
ParallelProcess, and serial-vs-parallel differential runs."""
import contextlib
import copy
import gc
import io
import multiprocessing
import os
import signal

import vivarium  # noqa
from vivarium.core.engine import Engine
from vivarium.core.process import Process, ParallelProcess
from vivarium.library import verif_hooks

from vv import store_run as sr

_PRELOADED = False


def preload():
    global _PRELOADED
    if not _PRELOADED:
        try:
            multiprocessing.set_forkserver_preload(
                ['vivarium', 'vv.probes', 'vv.store_run', 'vv.parallel_run'])
        except Exception:
            pass
        _PRELOADED = True


class Hang(Exception):
    pass


class Watch:
    def __init__(self, seconds):
        self.seconds = seconds

    def _fire(self, *a):
        raise Hang()

    def __enter__(self):
        self.old = signal.signal(signal.SIGALRM, self._fire)
        signal.setitimer(signal.ITIMER_REAL, self.seconds)

    def __exit__(self, *a):
        signal.setitimer(signal.ITIMER_REAL, 0)
        signal.signal(signal.SIGALRM, self.old)
        return False


class ParComp(Process):
    """compartment process: adds 1 to v/x; with empty=True it reports nothing
    (an empty update is a legal update)"""
    defaults = {'timestep': 1, 'empty': False}

    def ports_schema(self):
        # 'out' is wired to a store at the top of the hierarchy: it survives the
        # compartment, so the last update of a process that is deleted or divided in
        # the batch in which that update is due still shows there
        return {'v': {'x': dict(sr.X_SCHEMA)},
                'out': {'n': {'_default': 0, '_emit': True}}}

    def next_update(self, timestep, states):
        if self.parameters['empty']:
            return {}
        return {'v': {'x': 1}, 'out': {'n': 1}}


class Bomb(Process):
    """serial process that raises at its n-th invocation"""
    defaults = {'at': 2}

    def __init__(self, parameters=None):
        super().__init__(parameters)
        self.n = 0

    def ports_schema(self):
        return {'b': {'k': {'_default': 0}}}

    def next_update(self, timestep, states):
        self.n += 1
        if self.n == self.parameters['at']:
            raise ValueError('bomb')
        return {}


def comp(name, ts, parallel=True, empty=False):
    if isinstance(ts, (list, tuple)):       # (timestep, 'empty')
        ts, empty = ts[0], True
    cfg = {'name': 'r%d_%s' % (_RUN[0], name), 'timestep': ts, 'empty': empty}
    if parallel:
        cfg['_parallel'] = True
    return {'processes': {'p': ParComp(cfg)},
            'topology': {'p': {'v': ('v',), 'out': ('..', '..', 'outs')}},
            'initial_state': {'v': {'x': 0}}}


class ParDirector(Process):
    """script: {tick: structural update for the 'agents' / 'pool' ports}"""
    defaults = {'script': {}}

    def __init__(self, parameters=None):
        super().__init__(parameters)
        self.n = 0

    def ports_schema(self):
        return {'agents': copy.deepcopy(sr.GLOB), 'pool': copy.deepcopy(sr.GLOB)}

    def next_update(self, timestep, states):
        upd = self.parameters['script'].get(self.n, {})
        self.n += 1
        return upd


_OIDS = {}


def worker_name(name, oid):
    """The name of a worker in the records: the process name (without the run
    prefix); copies of a process (the daughters of a division by key) carry the
    name of the original and are told apart by the identity of their object."""
    # (a process that should not have a worker at all has no run prefix)
    base = name.split('_', 1)[1] if '_' in name else name
    if oid is None:
        return base
    if oid not in _OIDS:
        n = sum(1 for (b, _k) in _OIDS.values() if b == base)
        _OIDS[oid] = (base, base if n == 0 else '%s#%d' % (base, n + 1))
    return _OIDS[oid][1]


def find_parallel(eng, known):
    for path, node in eng.state.depth():
        if isinstance(node.value, ParallelProcess):
            known[worker_name(node.value.name, id(node.value))] = node.value


def alive(known):
    out = []
    for name, pp in known.items():
        try:
            if pp.multiprocess.is_alive():
                out.append(name)
        except ValueError:      # the multiprocessing.Process has been closed
            pass
    return sorted(out)


_RUN = [0]


def drain_hooks(recs):
    prefix = 'r%d_' % _RUN[0]
    for ev, f in verif_hooks.EVENTS:
        # events of objects of earlier runs (garbage collection) are not ours
        if not str(f.get('name', '')).startswith(prefix):
            continue
        f = dict(f, name=worker_name(f['name'], f.get('oid')))
        if ev == 'send':
            recs.append({'ev': 'send', 'w': f['name'], 'c': f['command']})
        elif ev == 'recv':
            recs.append({'ev': 'recv', 'w': f['name']})
        elif ev == 'end_begin':
            recs.append({'ev': 'end_begin', 'w': f['name'], 'ended': bool(f['ended']),
                         'pending': bool(f['pending'])})
        elif ev == 'end_done':
            recs.append({'ev': 'end_done', 'w': f['name']})
    verif_hooks.reset()


def plain_values(eng):
    """every variable of the hierarchy (the process nodes left out)"""
    def strip(d):
        if isinstance(d, dict):
            return {k: strip(v) for k, v in d.items()
                    if not isinstance(v, Process)
                    and not (isinstance(v, tuple) and v and isinstance(v[0], Process))}
        return d
    return strip(eng.state.get_value())


def run_protocol(sc, parallel=True, values=None):
    """sc: {'comps': [(name, ts)], 'ops': {tick: op}, 'ticks': n, 'finish': [...],
            'bomb': tick or None}
    op: ('del', name) | ('div', name, d1, d2) | ('move', name) | ('gen', name, ts)
    finish: list of 'end' | 'gc' """
    preload()
    assert verif_hooks.ENABLED or not parallel, \
        'VIVARIUM_CORE_VERIF=1 must be set before importing vivarium'
    gc.collect()
    _RUN[0] += 1
    _OIDS.clear()
    verif_hooks.reset()
    recs, known = [], {}
    script = {}
    in_tree = {name for name, ts in sc['comps']}
    for tick, op in sc['ops'].items():
        tick = int(tick)
        if op[0] == 'del':
            script[tick] = {'agents': {'_delete': [op[1]]}}
        elif op[0] == 'move':
            script[tick] = {'agents': {'_move': [{'source': (op[1],), 'target': 'pool'}]}}
        elif op[0] == 'div':
            ds = []
            if len(op) > 5 and op[5] == 'keyonly':
                # daughters named by key only: copies of the mother's processes
                script[tick] = {'agents': {'_divide': {'mother': op[1], 'daughters': [
                    {'key': op[2]}, {'key': op[3]}]}}}
                continue
            for d in (op[2], op[3]):
                t = comp(d, op[4], parallel=parallel)
                t['key'] = d
                t['initial_state'] = {}
                ds.append(t)
            script[tick] = {'agents': {'_divide': {'mother': op[1], 'daughters': ds}}}
        elif op[0] == 'gen':
            t = comp(op[1], op[2], parallel=parallel)
            t['key'] = op[1]
            script[tick] = {'agents': {'_generate': [t]}}
    processes = {'director': ParDirector({'script': script}), 'agents': {}}
    topology = {'director': {'agents': ('agents',), 'pool': ('pool',)}, 'agents': {}}
    state = {'agents': {}, 'pool': {}}
    if sc.get('bomb'):
        processes['bomb'] = Bomb({'at': sc['bomb']})
        topology['bomb'] = {'b': ('b',)}
    for name, ts in sc['comps']:
        c = comp(name, ts, parallel=parallel)
        processes['agents'][name] = c['processes']
        topology['agents'][name] = c['topology']
        state['agents'][name] = c['initial_state']
    eng = None
    try:
        with Watch(60), contextlib.redirect_stdout(io.StringIO()):
            eng = Engine(processes=processes, topology=topology, initial_state=state,
                         display_info=False,
                         emitter='timeseries' if sc.get('emit_all') else 'null')
            if sc.get('emit_all'):
                # every leaf is emitted, the process nodes included
                eng.state.set_emit_value(emit=True)
            find_parallel(eng, known)
            drain_hooks(recs)
            recs.append({'ev': 'alive', 'ws': alive(known), 'known': sorted(known)})
            steps = [sc['ticks']] if sc.get('long') else [1] * sc['ticks']
            for tick, span in enumerate(steps):
                op = sc['ops'].get(tick) or sc['ops'].get(str(tick))
                if sc.get('long'):
                    # one call: timesteps > 1 really are in flight when the op arrives
                    op = next(iter(sc['ops'].values()), None)
                try:
                    eng.update(span)
                    exc = None
                except Hang:
                    raise
                except Exception as e:
                    exc = '%s: %s' % (type(e).__name__, str(e)[:150])
                find_parallel(eng, known)
                drain_hooks(recs)
                if exc and not (sc.get('bomb') and 'bomb' in exc):
                    recs.append({'ev': 'error', 'text': exc, 'at': 'tick %d' % tick})
                    break
                if exc:
                    # the scripted exception: the caller now shuts the engine down
                    break
                if op and op[0] in ('del', 'div'):
                    recs.append({'ev': 'expect_ended', 'ws': [op[1]], 'why': op[0]})
                if op and op[0] == 'move':
                    recs.append({'ev': 'expect_live', 'ws': [op[1]], 'why': 'moved, still in the tree'})
                recs.append({'ev': 'alive', 'ws': alive(known), 'known': sorted(known)})
                if values is not None:
                    values.append(plain_values(eng))
            for fin in sc['finish']:
                if recs and recs[-1]['ev'] == 'error':
                    break
                if fin == 'end':
                    try:
                        eng.end()
                        # the published composite can still be read afterwards (a
                        # serial process answers; no command goes to a worker that
                        # has ended)
                        for pp in list(known.values()):
                            _ = pp.parameters
                        drain_hooks(recs)
                        recs.append({'ev': 'expect_ended', 'ws': sorted(known), 'why': 'Engine.end()'})
                        recs.append({'ev': 'alive', 'ws': alive(known), 'known': sorted(known)})
                    except Hang:
                        raise
                    except Exception as e:
                        drain_hooks(recs)
                        recs.append({'ev': 'error', 'text': '%s: %s' % (type(e).__name__, str(e)[:150]),
                                     'at': 'Engine.end()'})
                elif fin == 'gc':
                    eng = None
                    processes = topology = None
                    gc.collect()
                    drain_hooks(recs)
                    recs.append({'ev': 'alive', 'ws': alive(known), 'known': sorted(known)})
    except Hang:
        drain_hooks(recs)
        recs.append({'ev': 'hang'})
    finally:
        # never leave workers behind, whatever happened
        for pp in known.values():
            try:
                if pp.multiprocess.is_alive():
                    pp.multiprocess.terminate()
                    pp.multiprocess.join(5)
                    pp._ended = True       # harness clean-up only: silences __del__
            except Exception:
                pass
        verif_hooks.reset()
    return recs


def rename(recs):
    """process names -> w1, w2, ... in order of appearance"""
    names = {}

    def nm(x):
        if x not in names:
            names[x] = 'w%d' % (len(names) + 1)
        return names[x]
    out = []
    for r in recs:
        r = dict(r)
        if 'w' in r:
            r['w'] = nm(r['w'])
        if 'ws' in r:
            r['ws'] = [nm(x) for x in r['ws']]
        if 'known' in r:
            r['known'] = [nm(x) for x in r['known']]
        out.append(r)
    return out, names


def protocol_scenarios(tier):
    out = []
    for ts in (1, 3):                       # idle / update in flight when the op arrives
        for op_tick in (0, 1):
            for finish in (['end'], ['end', 'end'], ['gc']):
                out.append({'comps': [('a', ts), ('b', 2)], 'ops': {op_tick: ('del', 'a')},
                            'ticks': 3, 'finish': finish})
                out.append({'comps': [('a', ts), ('b', 1)],
                            'ops': {op_tick: ('div', 'a', 'c', 'd', ts)},
                            'ticks': 3, 'finish': finish})
                if finish != ['gc'] or tier == 'thorough':
                    out.append({'comps': [('a', ts), ('b', 1)], 'ops': {op_tick: ('move', 'a')},
                                'ticks': 4, 'finish': finish})
    # one long update(): the process with timestep 3 has an update in flight when
    # the director's operation (applied at time op_tick + 1) arrives
    for op_tick in (0, 1, 3):
        for finish in (['end'], ['end', 'end']):
            out.append({'comps': [('a', 3), ('b', 2)], 'ops': {op_tick: ('del', 'a')},
                        'ticks': 8, 'finish': finish, 'long': True})
            out.append({'comps': [('a', 3), ('b', 1)], 'ops': {op_tick: ('div', 'a', 'c', 'd', 3)},
                        'ticks': 8, 'finish': finish, 'long': True})
            out.append({'comps': [('a', 3), ('b', 1)], 'ops': {op_tick: ('move', 'a')},
                        'ticks': 8, 'finish': finish, 'long': True})
    for finish in (['end'], ['end', 'end'], ['gc'], []):
        out.append({'comps': [('a', 1), ('b', 2)], 'ops': {}, 'ticks': 2, 'finish': finish})
    # daughters named by key only (copies of the mother's - parallel - process),
    # the mother idle or with an update in flight
    keyonly = []
    for ts, long_ in ((1, False), (3, False), (3, True)):
        for op_tick in (0, 1):
            keyonly.append({'comps': [('a', ts), ('b', 1)],
                            'ops': {op_tick: ('div', 'a', 'c', 'd', ts, 'keyonly')},
                            'ticks': 8 if long_ else 3, 'finish': ['end'], 'long': long_})
    # the process that is deleted / divided away reports an empty update
    for op_tick, long_ in ((0, False), (1, False), (0, True), (1, True)):
        out.append({'comps': [('a', (3 if long_ else 1, 'empty')), ('b', 2)],
                    'ops': {op_tick: ('del', 'a')}, 'ticks': 8 if long_ else 3,
                    'finish': ['end'], 'long': long_})
        out.append({'comps': [('a', (3 if long_ else 1, 'empty')), ('b', 1)],
                    'ops': {op_tick: ('div', 'a', 'c', 'd', 1)}, 'ticks': 8 if long_ else 3,
                    'finish': ['end', 'end'], 'long': long_})
    # an exception raised by a callback while parallel updates are in flight
    for at in (1, 2):
        for finish in (['end'], ['end', 'end'], ['gc']):
            out.append({'comps': [('a', 3), ('b', 2)], 'ops': {}, 'ticks': 3, 'finish': finish,
                        'bomb': at})
    out.append({'comps': [('a', 2)], 'ops': {0: ('gen', 'g', 3), 2: ('del', 'g')}, 'ticks': 4,
                'finish': ['end']})
    # rows that include the process nodes, emitted while updates are in flight
    for long_ in (False, True):
        keyonly.append({'comps': [('a', 3), ('b', 1)], 'ops': {}, 'ticks': 4, 'finish': ['end'],
                        'long': long_, 'emit_all': True})
    if tier == 'quick':
        return out[::2] + [out[1]] + [o for o in out[1::2] if isinstance(o['comps'][0][1], tuple)] \
            + keyonly[::2] + keyonly[-3:]
    return out + keyonly
