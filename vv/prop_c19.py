"""C19: TimelineProcess. Timeline.tla enumerates every timeline (every listing
order, duplicate times, several events per tick) x timestep x run length,
checks that every event fires exactly once at the first tick that reached it,
and exports the rows each run must emit; every run is executed in a real
Engine with a TimelineProcess and compared row by row."""
import copy
import json

from vv import tlc, table
from vv.verdict import Report

import vivarium  # noqa
from vivarium.core.engine import Engine
from vivarium.core.process import Process
from vivarium.processes.timeline import TimelineProcess
from vivarium.core.composition import add_timeline

LAWS = ['C19_OnTimeOnce', 'C19_NoneDropped', 'C19_OrderFree', 'RowsAgree']


# the values the events set: plain numbers, or one-element lists / dictionaries
# (an event sets its variables 'to the given values' whatever their type)
CARRIERS = {
    'int': (lambda n: n, lambda v: v),
    'list': (lambda n: [n], lambda v: v[0] if isinstance(v, list) and len(v) == 1 else 'BAD%r' % (v,)),
    'dict': (lambda n: {'k%d' % n: n},
             lambda v: (list(v.values())[0] if isinstance(v, dict) and len(v) == 1
                        and list(v) == ['k%d' % list(v.values())[0]] else 'BAD%r' % (v,))),
}


class Holder(Process):
    """Declares the variables the timeline drives; contributes nothing."""
    defaults = {'names': ['x', 'y'], 'carrier': 'int', 'count': False}

    def ports_schema(self):
        mk = CARRIERS[self.parameters['carrier']][0]
        upd = 'accumulate' if self.parameters['count'] else 'set'
        return {'vars': {n: {'_default': mk(0), '_emit': True, '_updater': upd}
                         for n in self.parameters['names']}}

    def next_update(self, timestep, states):
        if self.parameters['count']:
            # +100 per tick: the hundreds count the ticks since the variable was
            # last set by an event (an event that fired twice resets the count)
            return {'vars': {n: 100 for n in self.parameters['names']}}
        return {}


def run_case(case, via_add_timeline, carrier='int'):
    if carrier == 'shared':
        # one change dictionary per variable, listed for every event on that
        # variable (a user's `on = {...}` reused at several times)
        mk, unmk = CARRIERS['int']
        objs = {}
        for i, e in enumerate(case['tl']):
            objs.setdefault(e['var'], {('vars', e['var']): i + 1})
        events = [(e['t'], objs[e['var']]) for e in case['tl']]
    else:
        mk, unmk = CARRIERS[carrier]
        events = [(e['t'], {('vars', e['var']): mk(i + 1)}) for i, e in enumerate(case['tl'])]
    split = carrier == 'int' and not via_add_timeline and case['run'] > case['ts']
    holder = Holder({'time_step': case['ts'], 'carrier': 'int' if carrier == 'shared' else carrier,
                     'count': split})
    if via_add_timeline:
        processes = {'holder': holder}
        topology = {'holder': {'vars': ('vars',)}}
        add_timeline(processes, topology,
                     {'timeline': copy.deepcopy(events), 'time_step': case['ts']})
    else:
        tp = TimelineProcess({'time_step': case['ts'], 'timeline': copy.deepcopy(events)})
        processes = {'holder': holder, 'timeline': tp}
        topology = {'holder': {'vars': ('vars',)},
                    'timeline': {'global': ('global',), 'vars': ('vars',)}}
        if not events:
            topology['timeline'] = {'global': ('global',)}
    eng = Engine(processes=processes, topology=topology, display_info=False,
                 emitter='timeseries')
    if split:
        # the run in two calls, with the process asked for its ports in between
        # (a harmless question: what has fired must not fire again)
        first = case['ts'] * max(1, (case['run'] // case['ts']) // 2)
        eng.update(first)
        processes['timeline'].ports()
        processes['timeline'].ports_schema()
        eng.update(case['run'] - first)
    else:
        eng.update(case['run'])
    data = eng.emitter.get_data()
    if split:
        # the ticks counted since the last set must grow by one per tick while no
        # event sets the variable
        times = sorted(data)
        for a, b2 in zip(times, times[1:]):
            for k in data[a].get('vars', {}):
                va, vb = data[a]['vars'][k], data[b2]['vars'][k]
                if va % 100 == vb % 100 and vb // 100 != va // 100 + 1 and b2 > 0:
                    return {float(b2): {k: 'REFIRED(%r->%r)' % (va, vb)}}
        return {float(t): {k: v % 100 for k, v in d.get('vars', {}).items()}
                for t, d in data.items()}
    return {float(t): {k: unmk(v) for k, v in d.get('vars', {}).items()}
            for t, d in data.items()}


def check_case(rep, case, k=0):
    # list / dict valued events: every case wired through add_timeline in turn
    variants = [(False, 'int'), (True, 'int'), (bool(k % 2), ('list', 'dict')[(k // 2) % 2]),
                (not k % 2, 'shared')]
    for via, carrier in variants:
        rep.evaluations += 1
        try:
            got = run_case(case, via, carrier)
        except Exception as e:
            rep.violation({'kind': 'case', 'tl': json.dumps(case['tl']), 'ts': case['ts']},
                          'C19 engine raised %r for timeline %s' % (e, json.dumps(case['tl'])),
                          {'case': case})
            return
        exp = {float(r['time']): r['vals'] for r in case['rows']}
        if carrier == 'shared':
            # every event on a variable sets the value of the first one listed
            first = {}
            for i, e in enumerate(case['tl']):
                first.setdefault(e['var'], i + 1)
            exp = {t: {v: (first[v] if x else 0) for v, x in vals.items()}
                   for t, vals in exp.items()}
        if got != exp:
            diff = sorted(t for t in set(got) | set(exp) if got.get(t) != exp.get(t))
            rep.violation(
                {'kind': 'case', 'tl': json.dumps(case['tl']), 'ts': case['ts'],
                 'run': case['run'], 'values': carrier},
                'C19 rows differ from Timeline.tla at times %s: timeline %s timestep %d '
                '(%s values): got %s expected %s'
                % (diff[:3], json.dumps(case['tl']), case['ts'], carrier,
                   got.get(diff[0]), exp.get(diff[0])),
                {'case': case, 'got': {str(k): v for k, v in got.items()},
                 'add_timeline': via})
            return


def nontrivial(case):
    ts_ = [e['t'] for e in case['tl']]
    return ts_ != sorted(ts_) or len(set(ts_)) < len(ts_) or \
        any(sum(1 for t in ts_ if k * case['ts'] - case['ts'] < t <= k * case['ts']) > 1
            for k in range(0, 9))


def run(rep, tier, scratch, only=None):
    consts = {'Times': '{0, 1, 2, 3, 5}', 'TVars': '{"x", "y"}',
              'MaxEv': 3 if tier == 'quick' else 4,
              'TSteps': '{1, 2, 4}', 'RunLen': '{6}' if tier == 'quick' else '{5, 8}'}
    cfg = table.cfg(consts, LAWS) + 'PROPERTIES\n  C19_NeverRefired\n'
    cases = table.run_table(rep, 'Timeline', 'Timeline_' + tier, cfg, scratch)
    for k, c in enumerate(cases):
        if only is not None and json.dumps(c['tl']) != only:
            continue
        check_case(rep, c, k)
        if nontrivial(c):
            rep.nontrivial.add(json.dumps([c['tl'], c['ts'], c['run']]))
    rep.traces = len(cases)
    if cases:
        rep.add_sample(cases[len(cases) // 2])
        rep.add_sample(cases[-1])
    rep.exhaustive = True


def check(prop, tier, seed):
    rep = Report(prop, tier, seed)
    rep.rule = ('every timeline of <= MaxEv events over times {0,1,2,3,5} and two variables '
                '(all listing orders, duplicate times) x timesteps {1,2,4} x run lengths; '
                'each run executed twice (TimelineProcess wired by hand and through '
                'add_timeline); non-trivial = unsorted listing, duplicate times or several '
                'events between two ticks')
    rep.assumptions = ['event values are the listing positions (all distinct), so a row '
                       'identifies which event decided each variable']
    with tlc.Scratch() as scratch:
        run(rep, tier, scratch)
    return rep.finish()


def replay(prop, path):
    with open(path) as f:
        data = json.load(f)
    only = data.get('signature', {}).get('tl')
    rep = Report(prop, 'quick', 0)
    with tlc.Scratch() as scratch:
        run(rep, 'quick', scratch, only=only)
    return rep.finish(write=False)
