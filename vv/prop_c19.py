"""C19: TimelineProcess. Timeline.tla enumerates every timeline (every listing
order, duplicate times, several events per tick) x timestep x run length,
checks that every event fires exactly once at the first tick that reached it,
and exports the rows each run must emit; every run is executed in a real
Engine with a TimelineProcess and compared row by row."""
import copy
import json

from vv import tlc, table
from vv.verdict import Report

import vivarium  # noqa
from vivarium.core.engine import Engine
from vivarium.core.process import Process
from vivarium.processes.timeline import TimelineProcess
from vivarium.core.composition import add_timeline

LAWS = ['C19_OnTimeOnce', 'C19_NoneDropped', 'C19_OrderFree', 'RowsAgree']


class Holder(Process):
    """Declares the variables the timeline drives; contributes nothing."""
    defaults = {'names': ['x', 'y']}

    def ports_schema(self):
        return {'vars': {n: {'_default': 0, '_emit': True}
                         for n in self.parameters['names']}}

    def next_update(self, timestep, states):
        return {}


def run_case(case, via_add_timeline):
    events = [(e['t'], {('vars', e['var']): i + 1}) for i, e in enumerate(case['tl'])]
    holder = Holder({'time_step': case['ts']})
    if via_add_timeline:
        processes = {'holder': holder}
        topology = {'holder': {'vars': ('vars',)}}
        add_timeline(processes, topology,
                     {'timeline': copy.deepcopy(events), 'time_step': case['ts']})
    else:
        tp = TimelineProcess({'time_step': case['ts'], 'timeline': copy.deepcopy(events)})
        processes = {'holder': holder, 'timeline': tp}
        topology = {'holder': {'vars': ('vars',)},
                    'timeline': {'global': ('global',), 'vars': ('vars',)}}
        if not events:
            topology['timeline'] = {'global': ('global',)}
    eng = Engine(processes=processes, topology=topology, display_info=False,
                 emitter='timeseries')
    eng.update(case['run'])
    data = eng.emitter.get_data()
    return {float(t): d.get('vars', {}) for t, d in data.items()}


def check_case(rep, case):
    for via in (False, True):
        rep.evaluations += 1
        try:
            got = run_case(case, via)
        except Exception as e:
            rep.violation({'kind': 'case', 'tl': json.dumps(case['tl']), 'ts': case['ts']},
                          'C19 engine raised %r for timeline %s' % (e, json.dumps(case['tl'])),
                          {'case': case})
            return
        exp = {float(r['time']): r['vals'] for r in case['rows']}
        if got != exp:
            diff = sorted(t for t in set(got) | set(exp) if got.get(t) != exp.get(t))
            rep.violation(
                {'kind': 'case', 'tl': json.dumps(case['tl']), 'ts': case['ts'],
                 'run': case['run']},
                'C19 rows differ from Timeline.tla at times %s: timeline %s timestep %d: '
                'got %s expected %s' % (diff[:3], json.dumps(case['tl']), case['ts'],
                                        got.get(diff[0]), exp.get(diff[0])),
                {'case': case, 'got': {str(k): v for k, v in got.items()},
                 'add_timeline': via})
            return


def nontrivial(case):
    ts_ = [e['t'] for e in case['tl']]
    return ts_ != sorted(ts_) or len(set(ts_)) < len(ts_) or \
        any(sum(1 for t in ts_ if k * case['ts'] - case['ts'] < t <= k * case['ts']) > 1
            for k in range(0, 9))


def run(rep, tier, scratch, only=None):
    consts = {'Times': '{0, 1, 2, 3, 5}', 'TVars': '{"x", "y"}',
              'MaxEv': 3 if tier == 'quick' else 4,
              'TSteps': '{1, 2, 4}', 'RunLen': '{8}' if tier == 'quick' else '{5, 8}'}
    cfg = table.cfg(consts, LAWS) + 'PROPERTIES\n  C19_NeverRefired\n'
    cases = table.run_table(rep, 'Timeline', 'Timeline_' + tier, cfg, scratch)
    for c in cases:
        if only is not None and json.dumps(c['tl']) != only:
            continue
        check_case(rep, c)
        if nontrivial(c):
            rep.nontrivial.add(json.dumps([c['tl'], c['ts'], c['run']]))
    rep.traces = len(cases)
    if cases:
        rep.add_sample(cases[len(cases) // 2])
        rep.add_sample(cases[-1])
    rep.exhaustive = True


def check(prop, tier, seed):
    rep = Report(prop, tier, seed)
    rep.rule = ('every timeline of <= MaxEv events over times {0,1,2,3,5} and two variables '
                '(all listing orders, duplicate times) x timesteps {1,2,4} x run lengths; '
                'each run executed twice (TimelineProcess wired by hand and through '
                'add_timeline); non-trivial = unsorted listing, duplicate times or several '
                'events between two ticks')
    rep.assumptions = ['event values are the listing positions (all distinct), so a row '
                       'identifies which event decided each variable']
    with tlc.Scratch() as scratch:
        run(rep, tier, scratch)
    return rep.finish()


def replay(prop, path):
    with open(path) as f:
        data = json.load(f)
    only = data.get('signature', {}).get('tl')
    rep = Report(prop, 'quick', 0)
    with tlc.Scratch() as scratch:
        run(rep, 'quick', scratch, only=only)
    return rep.finish(write=False)
