"""Dispatcher: ./check <id> --tier quick|thorough [--replay path]."""
import argparse
import os
import sys
import traceback


ENGINE_PROPS = ('C01', 'C02', 'C03', 'C04', 'C05', 'C12')


def dispatch(prop):
    if prop in ENGINE_PROPS:
        from vv import props_engine
        return props_engine
    import importlib
    return importlib.import_module('vv.prop_' + prop.lower())


def setup():
    from vv import tlc
    ok = True
    specdir = tlc.SPEC_DIR
    for fn in sorted(os.listdir(specdir)):
        if fn.endswith('.tla'):
            good, out = tlc.sany(fn[:-4])
            print('sany %-24s %s' % (fn, 'ok' if good else 'FAILED'))
            if not good:
                print(out[-2000:])
                ok = False
    import vivarium  # noqa: the repository must import
    from vv import probes  # noqa
    return 0 if ok else 2


def main(argv=None):
    ap = argparse.ArgumentParser()
    ap.add_argument('prop', nargs='?')
    ap.add_argument('--tier', default=os.environ.get('VERIF_TIER', 'quick'))
    ap.add_argument('--seed', type=int,
                    default=int(os.environ.get('VERIF_SEED', '20260928')))
    ap.add_argument('--replay')
    ap.add_argument('--setup', action='store_true')
    a = ap.parse_args(argv)
    if a.setup:
        return setup()
    if not a.prop:
        ap.error('property id required')
    prop = a.prop.upper()
    from vv.tlc import MachineryFailure
    from vv.verdict import machinery_failure
    try:
        mod = dispatch(prop)
        if a.replay:
            return mod.replay(prop, a.replay)
        return mod.check(prop, a.tier, a.seed)
    except MachineryFailure as e:
        return machinery_failure(prop, str(e))
    except Exception:
        traceback.print_exc()
        return machinery_failure(prop, 'unexpected exception in the harness')


if __name__ == '__main__':
    sys.exit(main())
