"""Dispatcher: ./check <id> --tier quick|thorough [--replay path]."""
import argparse
import os
import sys
import traceback


ENGINE_PROPS = ('C01', 'C02', 'C03', 'C04', 'C05', 'C12')


def dispatch(prop):
    if prop in ENGINE_PROPS:
        from vv import props_engine
        return props_engine
    import importlib
    return importlib.import_module('vv.prop_' + prop.lower())


def setup():
    from vv import tlc
    ok = True
    specdir = tlc.SPEC_DIR
    for fn in sorted(os.listdir(specdir)):
        if fn.endswith('.tla'):
            good, out = tlc.sany(fn[:-4])
            print('sany %-24s %s' % (fn, 'ok' if good else 'FAILED'))
            if not good:
                print(out[-2000:])
                ok = False
    import vivarium  # noqa: the repository must import
    from vv import probes  # noqa
    return 0 if ok else 2


def main(argv=None):
    ap = argparse.ArgumentParser()
    ap.add_argument('prop', nargs='?')
    ap.add_argument('--tier', default=os.environ.get('VERIF_TIER', 'quick'))
    ap.add_argument('--seed', type=int,
                    default=int(os.environ.get('VERIF_SEED', '20260928')))
    ap.add_argument('--replay')
    ap.add_argument('--setup', action='store_true')
    a = ap.parse_args(argv)
    if a.setup:
        return setup()
    if not a.prop:
        ap.error('property id required')
    prop = a.prop.upper()
    from vv.tlc import MachineryFailure
    from vv.verdict import machinery_failure
    try:
        mod = dispatch(prop)
        if a.replay:
            import json
            with open(a.replay) as f:
                kind = (json.load(f).get('signature') or {}).get('kind')
            if kind == 'library-exception':
                # the input is whatever the check was feeding: run the check again
                a.replay = None
                return mod.check(prop, a.tier, a.seed)
            return mod.replay(prop, a.replay)
        return mod.check(prop, a.tier, a.seed)
    except MachineryFailure as e:
        return machinery_failure(prop, str(e))
    except Exception as e:
        traceback.print_exc()
        where = raised_in_implementation(e)
        if where and not a.replay:
            # The harness only feeds inputs of the property's domain, and on a tree
            # where the property holds none of them makes the library raise (each
            # check catches the exceptions the property allows).  An exception that
            # escapes from a frame of the library itself is therefore a failure of
            # the library on such an input, not of the machinery.
            from vv.verdict import Report
            rep = Report(prop, a.tier, a.seed)
            rep.rule = 'aborted: the library raised on an in-domain input'
            text = ''.join(traceback.format_exception(type(e), e, e.__traceback__))
            rep.violation({'kind': 'library-exception', 'where': where,
                           'type': type(e).__name__},
                          'the library raised %s: %s in %s on an input of the property\'s '
                          'domain' % (type(e).__name__, str(e)[:200], where),
                          {'traceback': text[-6000:]})
            return rep.finish()
        return machinery_failure(prop, 'unexpected exception in the harness')


def raised_in_implementation(e):
    """'file:function' of the innermost frame if it belongs to the library under
    test (following the cause/context chain to the original exception), else None."""
    import vivarium
    root = os.path.dirname(os.path.abspath(vivarium.__file__)) + os.sep
    seen = set()
    while e is not None and id(e) not in seen:
        seen.add(id(e))
        last = e
        e = e.__cause__ or e.__context__
    frames = traceback.extract_tb(last.__traceback__)
    here = os.path.dirname(os.path.abspath(__file__)) + os.sep
    # the innermost frame that belongs to the library or to the harness decides
    # (frames of the standard library in between - a pipe that the library's
    #  worker broke, a copy the library asked for - are passed over)
    callbacks = ('next_update', 'calculate_timestep', 'update_condition')
    for i in range(len(frames) - 1, -1, -1):
        fr = frames[i]
        name = os.path.abspath(fr.filename)
        if name.startswith(root):
            return '%s:%s' % (os.path.relpath(fr.filename, os.path.dirname(root.rstrip(os.sep))),
                              fr.name)
        if name.startswith(here):
            # a probe process of the harness, called by the library, that cannot
            # read the states it was handed (a key its ports declare is missing, a
            # branch is None): the view does not have the declared shape
            called_by_library = any(
                os.path.abspath(f.filename).startswith(root) for f in frames[:i])
            if fr.name in callbacks and called_by_library and isinstance(
                    last, (KeyError, TypeError, AttributeError, IndexError)):
                return '%s:%s (states handed to a probe process)' % (
                    os.path.relpath(fr.filename, os.path.dirname(here.rstrip(os.sep))), fr.name)
            return None
    return None


def leave(rc):
    """Exit without waiting for worker processes that the code under test left
    behind (multiprocessing joins its children at interpreter exit: a leaked
    worker that waits for a command would hang the check after its verdict)."""
    try:
        import multiprocessing
        for child in multiprocessing.active_children():
            child.terminate()
    except Exception:
        pass
    sys.stdout.flush()
    sys.stderr.flush()
    os._exit(rc if isinstance(rc, int) else 0)


if __name__ == '__main__':
    leave(main())
