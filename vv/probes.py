"""Probe processes, steps, updaters and emitter used to observe the real engine.

Everything here is importable (so that probes can be pickled for parallel
workers) and records into the module-level recorder ``REC``.  Probes never
mutate their view, return fresh update objects and have no hidden state
besides their script positions.
"""
import os
import sys

REPO = os.environ.get('VERIF_REPO', '/repo')
if REPO not in sys.path:
    sys.path.insert(0, REPO)

from vivarium.core.process import Process, Step  # noqa: E402
from vivarium.core.emitter import Emitter  # noqa: E402
from vivarium.core.registry import emitter_registry  # noqa: E402


class Stall(Exception):
    """Raised by a probe when the engine makes no progress."""


class Recorder:
    def __init__(self, t0=0, max_events=4000):
        self.events = []
        self.engine = None
        self.t0 = t0
        self.uid = 0
        self.max_events = max_events
        self.stalled = False
        self.last_poll = {}   # pid -> (now, batches seen) for stall detection
        self.batches = 0

    def now(self):
        if self.engine is None:
            return self.t0
        return self.engine.global_time

    def add(self, *ev):
        self.events.append(ev)
        if len(self.events) > self.max_events:
            self.stalled = True
            raise Stall('too many events')

    def fresh_uid(self):
        self.uid += 1
        return self.uid


REC = Recorder()


def reset(t0=0, max_events=4000):
    global REC
    REC = Recorder(t0, max_events)
    return REC


def plain(x):
    """Copy a view into plain python data (dict of ints)."""
    if isinstance(x, dict):
        return {k: plain(v) for k, v in x.items()}
    return x


class Amt(int):
    """An update amount that carries the id of the update it belongs to."""
    def __new__(cls, value, uid=0):
        obj = super().__new__(cls, value)
        obj.uid = uid
        return obj

    def __reduce__(self):
        return (Amt, (int(self), self.uid))


class AccUpdater:
    """Accumulate-updater for one variable that records every call.  A class
    (not a closure) so that schemas containing it can cross process boundaries;
    all instances for one variable are equal."""

    def __init__(self, var):
        self.var = var
        self.__name__ = 'probe_acc_' + var

    def __call__(self, current, update):
        REC.add('apply', self.var, int(current), int(update),
                getattr(update, 'uid', 0), REC.now())
        return int(current) + int(update)

    def __eq__(self, other):
        return isinstance(other, AccUpdater) and other.var == self.var

    def __hash__(self):
        return hash(('AccUpdater', self.var))


_UPDATERS = {}


def updater_for(var):
    """One shared updater object per variable."""
    if var not in _UPDATERS:
        _UPDATERS[var] = AccUpdater(var)
    return _UPDATERS[var]


class ProbeProcess(Process):
    """A process whose answers come from scripts.

    parameters:
      pid      name used in traces
      vars     variables it declares (all are read; see writes)
      writes   {var: stream of amounts}; the clock variable (== pid) always
               receives the timestep argument
      ts       list of timestep answers, last one repeats
      cond     list of condition answers, last one repeats
      ts_fn / cond_fn   optional names of state-dependent rules
    """
    defaults = {
        'pid': 'p', 'vars': [], 'writes': {}, 'ts': [1], 'cond': [True],
        'ts_fn': None, 'cond_fn': None, 'emit': True, 'silent': False,
        'emit_off': [],
        'scale': 1, 'prec': None,     # tick length and global_time_precision
        'fscale': None,               # tick length of plain float times (no precision)
    }

    def __init__(self, parameters=None):
        super().__init__(parameters)
        self.pid = self.parameters['pid']
        self.i_ts = 0
        self.i_cond = 0
        self.i_inv = 0

    def ports_schema(self):
        return {'v': {
            var: {'_default': 0, '_updater': updater_for(var),
                  '_emit': self.parameters['emit'] and var not in self.parameters['emit_off']}
            for var in self.parameters['vars']}}

    @staticmethod
    def _pick(seq, i):
        return seq[i] if i < len(seq) else seq[-1]

    def calculate_timestep(self, states):
        fn = self.parameters['ts_fn']
        if fn:
            ans = TS_FNS[fn](self, states)
        else:
            ans = self._pick(self.parameters['ts'], self.i_ts)
        self.i_ts += 1
        if not self.parameters['silent']:
            REC.add('ts', self.pid, ans, REC.now(), plain(states.get('v', {})))
        if self.parameters['prec'] is not None:
            # timesteps on the 10^-p grid (ans is a number of ticks)
            return round(ans * self.parameters['scale'], self.parameters['prec'])
        if self.parameters['fscale'] is not None:
            # ordinary float arithmetic, as a user would write it (3 * 0.1)
            return ans * self.parameters['fscale']
        return ans

    def update_condition(self, timestep, states):
        fn = self.parameters['cond_fn']
        if fn:
            ans = COND_FNS[fn](self, timestep, states)
        else:
            ans = self._pick(self.parameters['cond'], self.i_cond)
        self.i_cond += 1
        if not self.parameters['silent']:
            REC.add('cond', self.pid, timestep, bool(ans), REC.now())
        return ans

    def next_update(self, timestep, states):
        uid = REC.fresh_uid()
        upd = {}
        for var in self.parameters['vars']:
            if var == self.pid:
                # the clock variable counts ticks
                if self.parameters['fscale'] is not None:
                    q = timestep / self.parameters['fscale']
                    ticks = round(q) if abs(q - round(q)) < 1e-6 else -777
                    upd[var] = Amt(ticks, uid)
                else:
                    upd[var] = Amt(timestep if self.parameters['prec'] is None
                                   else round(timestep / self.parameters['scale']), uid)
            elif var in self.parameters['writes']:
                amt = self._pick(self.parameters['writes'][var], self.i_inv)
                upd[var] = Amt(amt, uid)
        self.i_inv += 1
        if not self.parameters['silent']:
            REC.add('inv', self.pid, timestep, REC.now(),
                    plain(states.get('v', {})), uid,
                    {k: int(v) for k, v in upd.items()})
        return {'v': upd}


def _ts_from_state(proc, states):
    """1 + (sum of visible values mod 3): state dependent, in {1,2,3}."""
    vals = states.get('v', {})
    return 1 + (sum(int(v) for v in vals.values()) % 3)


def _cond_from_state(proc, timestep, states):
    vals = states.get('v', {})
    return (sum(int(v) for v in vals.values()) + proc.i_cond) % 3 != 0


TS_FNS = {'state3': _ts_from_state}
COND_FNS = {'state3': _cond_from_state}


class DirectorProbe(ProbeProcess):
    """A probe whose updates may carry a structural operation on the top-level
    process set: parameters['sops'][k] is the operation of its k-th update
    ({'op': 'del', 'q': name} | {'op': 'add', 'q': name, 'cfg': {...}} | None)."""
    defaults = dict(ProbeProcess.defaults, sops=[], nest=False)

    def ports_schema(self):
        sch = super().ports_schema()
        sch['root'] = {'_output': True}
        return sch

    def next_update(self, timestep, states):
        k = self.i_inv
        upd = super().next_update(timestep, states)
        sops = self.parameters['sops']
        op = sops[k] if k < len(sops) else None
        if op:
            nest = self.parameters['nest']
            if op['op'] == 'del':
                upd['root'] = {'_delete': [('c_' + op['q']) if nest else op['q']]}
            else:
                cfg = dict(op['cfg'])
                cfg['pid'] = op['q']
                gen = {'processes': {op['q']: ProbeProcess(cfg)},
                       'topology': {op['q']: {'v': ('..', 'v') if nest else ('v',)}},
                       'initial_state': {}}
                if nest:
                    gen['key'] = 'c_' + op['q']
                upd['root'] = {'_generate': [gen]}
            if not self.parameters['silent']:
                REC.add('sop', self.pid, op['op'], op['q'],
                        list(op['cfg']['vars']) if op['op'] == 'add' else [])
        return upd


class ProbeStep(Step):
    """A step that adds 1 to its own counter and records what it sees."""
    defaults = {'pid': 's', 'vars': [], 'emit': True, 'silent': False, 'emit_off': []}

    def __init__(self, parameters=None):
        super().__init__(parameters)
        self.pid = self.parameters['pid']

    def ports_schema(self):
        return {'v': {
            var: {'_default': 0, '_updater': updater_for(var),
                  '_emit': self.parameters['emit'] and var not in self.parameters['emit_off']}
            for var in self.parameters['vars']}}

    def next_update(self, timestep, states):
        uid = REC.fresh_uid()
        upd = {self.pid: Amt(1, uid)}
        if not self.parameters['silent']:
            REC.add('step', self.pid, timestep, REC.now(),
                    plain(states.get('v', {})), uid,
                    {k: int(v) for k, v in upd.items()})
        return {'v': upd}


class VerifEmitter(Emitter):
    def emit(self, data):
        table = data['table']
        if table == 'history':
            d = data['data']
            row = dict(d.get('v', {}))
            REC.add('emit', d['time'], {k: int(v) for k, v in row.items()})
        else:
            REC.add('config', table)

    def get_data(self, query=None):
        return {}


emitter_registry.register('verif', VerifEmitter)
