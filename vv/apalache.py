"""Thin wrapper around Apalache (symbolic model checker for TLA+): one bounded check
of one invariant (state or action) from a chosen initial predicate."""
import os
import shutil
import subprocess
import time

from vv import tlc


def check(module, init, inv, length, scratch, timeout=600):
    """Returns {'init','inv','length','outcome','wall_s'}; outcome is 'ok' or
    'violated'.  Anything else (Apalache missing, a parse or typing error, a timeout)
    is a machinery failure: the run decided nothing."""
    exe = shutil.which('apalache-mc')
    if exe is None:
        raise tlc.MachineryFailure('apalache-mc is not on PATH')
    out = os.path.join(scratch, 'apalache_%d' % int(time.time() * 1e6))
    os.makedirs(out, exist_ok=True)
    # (the module is copied: Apalache writes next to nothing in the spec directory,
    #  but its run directory is named after the file)
    src = os.path.join(tlc.SPEC_DIR, module + '.tla')
    dst = os.path.join(out, module + '.tla')
    shutil.copy(src, dst)
    env = dict(os.environ)
    env.setdefault('JVM_ARGS', '-Xmx4g -Djava.io.tmpdir=' + out)
    t0 = time.time()
    try:
        p = subprocess.run([exe, 'check', '--init=' + init, '--inv=' + inv,
                            '--length=%d' % length, '--out-dir=' + os.path.join(out, 'run'), dst],
                           cwd=out, env=env, stdout=subprocess.PIPE, stderr=subprocess.STDOUT,
                           timeout=timeout)
    except subprocess.TimeoutExpired:
        raise tlc.MachineryFailure('apalache: %s/%s did not finish in %d s' % (module, inv, timeout))
    text = p.stdout.decode('utf-8', 'replace')
    wall = round(time.time() - t0, 2)
    if p.returncode == 0 and 'EXITCODE: OK' in text:
        outcome = 'ok'
    elif p.returncode == 12 and 'violated' in text:
        outcome = 'violated'
    else:
        raise tlc.MachineryFailure('apalache: %s/%s exit %s: %s'
                                   % (module, inv, p.returncode, text[-800:]))
    return {'module': module, 'init': init, 'inv': inv, 'length': length,
            'outcome': outcome, 'wall_s': wall, 'tail': text[-1500:]}
