"""Run scheduler scenarios against the real engine and record traces."""
import copy
import signal
import random
import itertools

from vv import probes
from vv.probes import ProbeProcess, ProbeStep, DirectorProbe, Stall

from vivarium.core.engine import Engine, EmptyDefer


class Watchdog:
    def __init__(self, seconds=5.0):
        self.seconds = seconds

    def _fire(self, signum, frame):
        raise Stall('watchdog')

    def __enter__(self):
        self.old = signal.signal(signal.SIGALRM, self._fire)
        signal.setitimer(signal.ITIMER_REAL, self.seconds)

    def __exit__(self, *a):
        signal.setitimer(signal.ITIMER_REAL, 0)
        signal.signal(signal.SIGALRM, self.old)
        return False


def build_engine(sc, emitter='verif', parallel=()):
    procs, topo, steps, flow = {}, {}, {}, {}
    for pid in sc.get('order', list(sc['procs'])):
        cfg = dict(sc['procs'][pid])
        cfg['pid'] = pid
        if sc.get('precision') is not None:
            cfg['prec'] = sc['precision']
            cfg['scale'] = 10.0 ** -sc['precision']
        if sc.get('fscale') is not None:
            cfg['fscale'] = sc['fscale']
        if pid in parallel:
            cfg['_parallel'] = True
        if cfg.get('sops') is not None:
            cfg['nest'] = bool(sc.get('nest'))
            procs[pid] = DirectorProbe(cfg)
            topo[pid] = {'v': ('v',), 'root': ()}
        elif sc.get('nest'):
            # every other process lives in a compartment of its own ('c_' + pid),
            # wired back to the shared store: deleting / creating it is deleting /
            # generating the compartment
            procs['c_' + pid] = {pid: ProbeProcess(cfg)}
            topo['c_' + pid] = {pid: {'v': ('..', 'v')}}
        else:
            procs[pid] = ProbeProcess(cfg)
            topo[pid] = {'v': ('v',)}
    groups = {sid: sc['steps'][sid].get('group') for sid in sc.get('steps', {})}

    def rel(frm, to):
        """path of step `to`, relative to the parent of step `frm`"""
        gf, gt = groups.get(frm), groups.get(to)
        if gf == gt:
            return (to,)
        return (('..',) if gf else ()) + ((gt,) if gt else ()) + (to,)
    for sid in sc.get('step_order', list(sc.get('steps', {}))):
        cfg = dict(sc['steps'][sid])
        cfg['pid'] = sid
        deps = cfg.pop('deps', None)
        grp = cfg.pop('group', None)
        step = ProbeStep(cfg)
        if grp:
            # nested one level down: wired back to the shared store with '..',
            # dependencies written as relative paths
            steps.setdefault(grp, {})[sid] = step
            topo.setdefault(grp, {})[sid] = {'v': ('..', 'v')}
            if deps is not None:
                flow.setdefault(grp, {})[sid] = [rel(sid, d) for d in deps]
        else:
            steps[sid] = step
            topo[sid] = {'v': ('v',)}
            if deps is not None:
                flow[sid] = [rel(sid, d) for d in deps]
    kw = {}
    if sc.get('store_schema'):
        kw['store_schema'] = sc['store_schema']
    if sc.get('precision') is not None:
        kw['global_time_precision'] = sc['precision']
    eng = Engine(
        processes=procs, steps=steps, flow=flow, topology=topo,
        initial_state={'v': dict(sc.get('init', {}))},
        emitter={'type': emitter},
        emit_step=sc.get('emit_step', 1) if sc.get('precision') is None
        else (sc.get('emit_step', 1) if sc.get('emit_step', 1) == 1
              else round(sc['emit_step'] * 10.0 ** -sc['precision'], sc['precision'])),
        display_info=False, progress_bar=False,
        initial_global_time=(sc.get('t0', 0) * (sc.get('fscale') or 1))
        if sc.get('precision') is None
        else round(sc.get('t0', 0) * 10.0 ** -sc['precision'], sc['precision']), **kw)
    return eng


def front_projection(eng):
    out = {}
    for path, adv in eng.front.items():
        if path in eng.process_paths:
            upd = adv['update']
            real = bool(upd) and not isinstance(upd[0], EmptyDefer)
            out[path[-1]] = [adv['time'], 1 if real else 0]
    return out


_STALLS = [0]


def run_scenario(sc, watchdog=20.0):
    """Returns the raw event list of one run of the real engine.

    The watchdog is generous (machine load must not turn into a verdict); once
    several runs have hung it is shortened so that a hanging tree does not cost
    20 s per scenario."""
    if _STALLS[0] >= 3:
        watchdog = min(watchdog, 3.0)
    if _STALLS[0] >= 12:
        # a tree on which a dozen runs have hung: the verdict is in, the rest of
        # the scenarios are not run (the marker is not a rule of any property)
        return [('skipped',)]
    t0 = sc.get('t0', 0)
    if sc.get('precision') is not None:
        t0 = round(t0 * 10.0 ** -sc['precision'], sc['precision'])
    if sc.get('fscale') is not None:
        t0 = t0 * sc['fscale']
    rec = probes.reset(t0)
    try:
        with Watchdog(watchdog):
            eng = build_engine(sc)
            rec.engine = eng
            for iv, force in sc['calls']:
                if sc.get('precision') is not None:
                    iv = round(iv * 10.0 ** -sc['precision'], sc['precision'])
                if sc.get('fscale') is not None:
                    iv = iv * sc['fscale']
                rec.add('call', iv, bool(force), eng.global_time)
                if force:
                    eng.update(iv)
                else:
                    eng.run_for(iv)
                rec.add('return', eng.global_time, front_projection(eng))
            eng.end()
    except Stall:
        _STALLS[0] += 1
        rec.events.append(('stall',))
    except BaseException as e:  # noqa: the engine re-wraps exceptions
        if rec.stalled:
            _STALLS[0] += 1
            rec.events.append(('stall',))
        else:
            rec.events.append(('exc', type(e).__name__ + ': ' + str(e)[:200]))
    return rec.events


def emit_off_of(sc):
    """The variables that must NOT appear in rows, by the rule of C12: the flag
    the declarations give (they agree), overridden by store_schema at leaf or
    branch level."""
    allv, off = set(), set()
    for c in list(sc['procs'].values()) + list(sc.get('steps', {}).values()):
        allv.update(c['vars'])
        off.update(c.get('emit_off', []))
    ss = (sc.get('store_schema') or {}).get('v', {})
    if '_emit' in ss:
        off = set() if ss['_emit'] else set(allv)
    for var, cfg in ss.items():
        if var != '_emit' and isinstance(cfg, dict) and '_emit' in cfg:
            (off.discard if cfg['_emit'] else off.add)(var)
    return sorted(off)


def to_records(sc, raw, scale=None):
    """Group raw callbacks syntactically into the records TLC consumes.

    Times are converted to integer ticks.  With global_time_precision p the tick
    is 10^-p and every *time* (clock, front, row) must be exactly the float
    round(k * 10^-p, p); a time that is not is mapped to a value nothing in the
    specification matches.  Timestep *arguments* are differences of such floats
    and are mapped with a tolerance.
    """
    prec = sc.get('precision')
    if scale is None:
        scale = (sc.get('fscale') or 1) if prec is None else 10.0 ** -prec

    def tick_len(t):
        q = t / scale
        r = round(q)
        if abs(q - r) > 1e-6:
            return -777
        return int(r)

    def tick(t):
        if prec is None:
            return tick_len(t)
        r = round(t / scale)
        if t != round(r * scale, prec):
            return -777  # off the grid
        return int(r)

    recs = []
    init = {
        'ev': 'init',
        'procs': list(sc.get('order', list(sc['procs']))),
        'steps': list(sc.get('step_order', list(sc.get('steps', {})))),
        'deps': {s: list(c['deps']) for s, c in sc.get('steps', {}).items()
                 if c.get('deps') is not None},
        'seq': [s for s in sc.get('step_order', list(sc.get('steps', {})))
                if sc['steps'][s].get('deps') is None],
        'vals': {},
        'emit_off': emit_off_of(sc),
        'emit_step': int(sc.get('emit_step', 1)),
        't0': int(sc.get('t0', 0)),
    }
    allv = set()
    for c in list(sc['procs'].values()) + list(sc.get('steps', {}).values()):
        allv.update(c['vars'])
    for v in sorted(allv):
        init['vals'][v] = sc.get('init', {}).get(v, 0)
    recs.append(init)
    i, n = 0, len(raw)
    constructed = False
    last_kind = None
    nconfig = 0       # configuration records received so far
    while i < n:
        ev = raw[i]
        k = ev[0]
        if k == 'config':
            nconfig += 1
            i += 1
            continue
        if k in ('ts', 'cond'):
            p = ev[1]
            r = {'ev': 'poll', 'p': p, 'ts': -1, 'cond': 'N', 'targ': -1,
                 'handed': 0, 'uid': 0, 'upd': {}, 'view': {}, 'now': 0,
                 'sop': {'op': 'none', 'q': '-'}}
            if k == 'ts':
                r['ts'] = int(ev[2])
                r['now'] = tick(ev[3])
                r['view'] = ev[4]
                i += 1
            if i < n and raw[i][0] == 'cond' and raw[i][1] == p:
                c = raw[i]
                r['cond'] = 'T' if c[3] else 'F'
                r['targ'] = tick_len(c[2])
                r['now'] = tick(c[4])
                i += 1
                if i < n and raw[i][0] == 'inv' and raw[i][1] == p:
                    v = raw[i]
                    r['handed'] = tick_len(v[2])
                    r['view'] = v[4]
                    r['uid'] = v[5]
                    r['upd'] = dict(v[6])
                    i += 1
                    if i < n and raw[i][0] == 'sop' and raw[i][1] == p:
                        r['sop'] = {'op': raw[i][2], 'q': raw[i][3]}
                        if raw[i][2] == 'add':
                            r['sop']['vars'] = list(raw[i][4])
                        i += 1
            recs.append(r)
            last_kind = 'poll'
            continue
        if k == 'inv':
            # an invocation that is not preceded by its condition call
            recs.append({'ev': 'orphan_invoke', 'p': ev[1], 'now': tick(ev[3])})
            i += 1
            last_kind = 'poll'
            continue
        if k == 'apply':
            uid = ev[4]
            if last_kind in ('poll', 'call') and constructed:
                recs.append({'ev': 'advance', 'now': tick(ev[5])})
            writes = []
            now = ev[5]
            while i < n and raw[i][0] == 'apply' and raw[i][4] == uid:
                a = raw[i]
                writes.append({'var': a[1], 'cur': a[2], 'amt': a[3]})
                i += 1
            recs.append({'ev': 'apply', 'uid': uid, 'now': tick(now),
                         'writes': writes})
            last_kind = 'apply'
            continue
        if k == 'step':
            recs.append({'ev': 'step', 's': ev[1], 'ts': ev[2],
                         'now': tick(ev[3]), 'view': ev[4], 'uid': ev[5],
                         'upd': ev[6]})
            i += 1
            last_kind = 'apply' if last_kind == 'apply' else last_kind
            if last_kind not in ('apply',):
                last_kind = 'step'
            continue
        if k == 'emit':
            recs.append({'ev': 'row', 'time': tick(ev[1]), 'vals': ev[2], 'cfg': nconfig})
            constructed = True
            i += 1
            last_kind = 'apply'
            continue
        if k == 'call':
            recs.append({'ev': 'call', 'iv': tick_len(ev[1]), 'force': ev[2],
                         'now': tick(ev[3])})
            constructed = True
            last_kind = 'call'
        elif k == 'return':
            recs.append({'ev': 'return', 'now': tick(ev[1]),
                         'front': {p: [tick(f[0]), f[1]]
                                   for p, f in ev[2].items()}})
            last_kind = 'return'
        elif k == 'stall':
            recs.append({'ev': 'stall'})
        elif k == 'exc':
            recs.append({'ev': 'exc', 'text': ev[1]})
        i += 1
    return recs


# ---------------------------------------------------------------- generators

def random_scenario(rng, nprocs=None, max_ts=3, max_calls=3, shared=True,
                    state_dependent=False, nsteps=0):
    nprocs = nprocs or rng.randint(1, 3)
    pids = ['p%d' % (i + 1) for i in range(nprocs)]
    procs = {}
    for pid in pids:
        vars_ = [pid]
        writes = {}
        if shared and rng.random() < 0.7:
            vars_.append('s')
            writes['s'] = [rng.randint(1, 3) for _ in range(rng.randint(1, 4))]
        # some processes also read another's clock
        other = rng.choice(pids)
        if other != pid and rng.random() < 0.4:
            vars_.append(other)
        cfg = {
            'vars': vars_, 'writes': writes,
            'ts': [rng.randint(1, max_ts) for _ in range(rng.randint(1, 5))],
            'cond': [rng.random() < 0.75 for _ in range(rng.randint(1, 5))],
        }
        if state_dependent and rng.random() < 0.5:
            cfg['ts_fn'] = 'state3'
        if state_dependent and rng.random() < 0.3:
            cfg['cond_fn'] = 'state3'
        procs[pid] = cfg
    order = list(pids)
    rng.shuffle(order)
    calls = [[rng.randint(1, 4), rng.random() < 0.5]
             for _ in range(rng.randint(1, max_calls))]
    sc = {'procs': procs, 'order': order, 'calls': calls,
          'emit_step': rng.choice([1, 1, 1, 2, 3]),
          'init': {}}
    if rng.random() < 0.3:
        sc['init'] = {'s': rng.randint(0, 5)} if shared else {}
    if rng.random() < 0.2:
        sc['t0'] = rng.randint(1, 5)
    if nsteps:
        sids = ['s%d' % (i + 1) for i in range(nsteps)]
        steps = {}
        for j, sid in enumerate(sids):
            kind = rng.random()
            deps = None if kind < 0.25 else [
                d for d in sids[:j] if steps[d].get('deps') is not None
                and rng.random() < 0.5]
            vars_ = [sid] + [v for v in pids if rng.random() < 0.4]
            if deps:
                vars_ += [d for d in deps]
            steps[sid] = {'vars': sorted(set(vars_)), 'deps': deps}
            if deps is not None and rng.random() < 0.4:
                # (derivers stay at the top level: their declaration order is the
                #  order of the flat dictionary)
                steps[sid]['group'] = rng.choice(['ga', 'gb'])
        sc['steps'] = steps
        so = list(sids)
        sc['step_order'] = so
    if rng.random() < 0.2 and not state_dependent:
        # timesteps on the 10^-p grid with global_time_precision p
        sc['precision'] = rng.choice([1, 2])
        sc['calls'] = [[rng.randint(3, 12), f] for _iv, f in sc['calls']]
        for c in procs.values():
            c['ts'] = [rng.choice([1, 2, 3, 7]) for _ in c['ts']]
        # (emit_step 2 or 3 means 2 or 3 ticks of the grid here)
    allvars = sorted({v for c in list(procs.values()) + list(sc.get('steps', {}).values())
                      for v in c['vars']})
    r = rng.random()
    if r < 0.25:
        # some variables are declared (by everybody) as not emitted
        off = [v for v in allvars if rng.random() < 0.4]
        for c in list(procs.values()) + list(sc.get('steps', {}).values()):
            c['emit_off'] = [v for v in off if v in c['vars']]
    if 0.15 < r < 0.45:
        # flags overridden through store_schema, at leaf or at branch level
        if rng.random() < 0.3:
            sc['store_schema'] = {'v': {'_emit': rng.random() < 0.5}}
        else:
            sc['store_schema'] = {'v': {v: {'_emit': rng.random() < 0.5}
                                        for v in allvars if rng.random() < 0.5}}
    return sc


def systematic_scenarios(nprocs, ts_set, conds, calls_set, depth):
    """All scenarios with constant-prefix scripts of length `depth`."""
    pids = ['p%d' % (i + 1) for i in range(nprocs)]
    answers = list(itertools.product(ts_set, conds))
    scripts = list(itertools.product(answers, repeat=depth))
    for calls in calls_set:
        for combo in itertools.product(scripts, repeat=nprocs):
            procs = {}
            for pid, script in zip(pids, combo):
                procs[pid] = {
                    'vars': [pid, 's'], 'writes': {'s': [1]},
                    'ts': [a[0] for a in script],
                    'cond': [a[1] for a in script]}
            yield {'procs': procs, 'order': pids, 'calls': [list(c) for c in calls],
                   'emit_step': 1, 'init': {}}


def float_scenario(rng):
    """One process whose timesteps, and calls whose intervals, are ordinary float
    multiples of a decimal tick (3 * 0.1) without global_time_precision.  Times
    are mapped to ticks with a tolerance; with a single process no two events
    are meant to coincide, so the mapping is unambiguous."""
    cfg = {'vars': ['p1', 's'], 'writes': {'s': [rng.randint(1, 3) for _ in range(3)]},
           'ts': [rng.choice([1, 2, 3, 5, 6, 7, 10]) for _ in range(rng.randint(1, 5))],
           'cond': [rng.random() < 0.8 for _ in range(rng.randint(1, 4))]}
    calls = [[rng.randint(1, 12), rng.random() < 0.6] for _ in range(rng.randint(1, 3))]
    sc = {'procs': {'p1': cfg}, 'order': ['p1'], 'calls': calls, 'emit_step': 1, 'init': {},
          'fscale': rng.choice([0.1, 0.1, 0.3, 0.01, 0.7])}
    if rng.random() < 0.3:
        sc['t0'] = rng.randint(1, 4)
    return sc


def director_scenario(rng, max_ts=3):
    """A director (p1) that deletes other processes and creates spare ones while
    updates with different timesteps are in flight."""
    sc = random_scenario(rng, nprocs=rng.randint(2, 3), max_ts=max_ts, shared=True)
    pids = sorted(sc['procs'])
    spare = ['p%d' % (len(pids) + 1), 'p%d' % (len(pids) + 2)]
    sc.pop('store_schema', None)
    sc.pop('precision', None)
    for c in sc['procs'].values():
        c.pop('emit_off', None)
        c['ts'] = [min(t, max_ts) for t in c['ts']]
    d = sc['procs']['p1']
    sops, alive, free = [], set(pids) - {'p1'}, list(spare)
    for k in range(rng.randint(2, 6)):
        r = rng.random()
        if r < 0.35 and alive:
            q = rng.choice(sorted(alive))
            alive.discard(q)
            sops.append({'op': 'del', 'q': q})
        elif r < 0.65 and free:
            q = free.pop(0)
            alive.add(q)
            sops.append({'op': 'add', 'q': q, 'cfg': {
                'vars': [q, 's'], 'writes': {'s': [rng.randint(1, 3)]},
                'ts': [rng.randint(1, max_ts) for _ in range(3)],
                'cond': [rng.random() < 0.8 for _ in range(3)]}})
        else:
            sops.append(None)
    d['sops'] = sops
    d['cond'] = [True]
    sc['calls'] = [[rng.randint(2, 5), rng.random() < 0.6] for _ in range(rng.randint(1, 3))]
    # variables created processes will declare must be known to the trace
    for op in sops:
        if op and op['op'] == 'add':
            sc.setdefault('init', {})
    sc['emit_step'] = 1
    sc['nest'] = rng.random() < 0.5
    return sc


def recreate_scenarios():
    """A path deleted by one director and created again by another in the same
    batch, while the old process has an update in flight: the new process must
    start at the time of its creation."""
    out = []
    for ts_old in (2, 3, 5):
        for ts_new in (1, 2):
            for when in (1, 2):
                cfg3 = {'vars': ['p3', 's'], 'writes': {'s': [1]}, 'ts': [ts_new], 'cond': [True]}
                p1 = {'vars': ['p1'], 'writes': {}, 'ts': [1], 'cond': [True],
                      'sops': [None] * (when - 1) + [{'op': 'del', 'q': 'p3'}]}
                p2 = {'vars': ['p2'], 'writes': {}, 'ts': [when], 'cond': [True],
                      'sops': [{'op': 'add', 'q': 'p3', 'cfg': cfg3}]}
                p3 = {'vars': ['p3', 's'], 'writes': {'s': [1]}, 'ts': [ts_old], 'cond': [True]}
                for nest in (False, True):
                    # (in the calls that are not forced the old process, whose
                    #  interval does not fit, is waiting with a deferred timestep
                    #  and nothing in flight when its path is deleted)
                    for calls in ([[8, True]], [[2, False], [7, True]],
                                  [[3, False], [3, False], [4, True]]):
                        sc = {'procs': copy.deepcopy({'p1': p1, 'p2': p2, 'p3': p3}),
                              'order': ['p1', 'p2', 'p3'], 'nest': nest,
                              'calls': [list(c) for c in calls], 'emit_step': 1, 'init': {}}
                        out.append(sc)
    return out
