"""C06: a port reads and writes the same store node. Topology.tla enumerates
port kinds x topology entries x process locations, computes the resolution
function R, and exports it; every case is built as a real Engine: the view the
process receives must show the values of exactly the nodes R names, and after
one update exactly those nodes must have changed, each by the sum of the
amounts of the variables wired to it."""
import json

from vv import tlc, table, topo_cases as tc
from vv.verdict import Report

LAWS = ['LawTotal', 'LawSameNodes', 'LawCollisionsKept']


def check_case(rep, case, wrap=False):
    rep.evaluations += 1
    b = tc.build(case, wrap=wrap)
    sig = {'kind': 'case', 'case': tc.case_id(case)}
    if wrap:
        sig['form'] = 'update names its updater' if wrap is True else str(wrap)
    try:
        eng = tc.make_engine(b)
        before = tc.flatten(eng.state.get_value())
        eng.update(1)
        after = tc.flatten(eng.state.get_value())
        eng.update(1)
        after2 = tc.flatten(eng.state.get_value())
    except Exception as e:
        rep.violation(sig, 'C06 engine raised %r for case %s' % (e, tc.case_id(case)),
                      {'case': case})
        return
    # the nodes hold their initial values before the update
    for n in b.nodes:
        if before.get(n) != b.initial[n]:
            rep.violation(dict(sig, what='initial'),
                          'C06 node %s holds %r before the update, expected %r; case %s'
                          % (n, before.get(n), b.initial[n], tc.case_id(case)), {'case': case})
            return
    exp_after = dict(before)
    for x in b.variables:
        n = tuple(x['node'])
        exp_after[n] = exp_after[n] + b.amount[(x['port'], tuple(x['v']))]
    exp_after2 = dict(exp_after)
    for x in b.variables:
        n = tuple(x['node'])
        exp_after2[n] = exp_after2[n] + b.amount[(x['port'], tuple(x['v']))]
    for k, (view, values) in enumerate(((b.log[0] if b.log else None, b.initial),
                                        (b.log[1] if len(b.log) > 1 else None, exp_after))):
        exp_view = tc.expected_view(b, values)
        if view != exp_view:
            rep.violation(dict(sig, what='view', update=k + 1),
                          'C06 at its update %d the process reads %r, the nodes it is wired to '
                          'hold %r; case %s' % (k + 1, view, exp_view, tc.case_id(case)),
                          {'case': case})
            return
    for k, (got, exp) in enumerate(((after, exp_after), (after2, exp_after2))):
        if got != exp:
            diff = {str(n): (got.get(n), exp.get(n))
                    for n in set(got) | set(exp) if got.get(n) != exp.get(n)}
            rep.violation(dict(sig, what='write', update=k + 1),
                          'C06 after update %d (got, expected) differ at %s; case %s'
                          % (k + 1, diff, tc.case_id(case)), {'case': case, 'diff': diff})
            return
    # walking into the process node and through a port (Store.get_path with the
    # process's own topology) arrives at the node R names (plain-path ports)
    if not wrap:
        loc = tuple(case['loc'])
        for x in b.variables:
            port = next(p for p in case['ports'] if p['name'] == x['port'])
            if port['t'] not in ('path', 'dict') or port['kind'] in ('glob', 'glob2', 'output'):
                continue
            if port['t'] == 'dict' and not port['hasp'] and \
                    (not x['v'] or x['v'][0] not in [c for c, _p in tc.seq(port['sub'])]):
                # (a child that a dictionary without '_path' does not mention: the
                #  walk through the process node does not know the rule that reading
                #  and writing follow - not part of the property)
                continue
            try:
                via = eng.state.get_path(loc + ('proc', x['port']) + tuple(x['v']))
                direct = eng.state.get_path(tuple(x['node']))
            except Exception as e:
                rep.violation(dict(sig, what='walk-through-process'),
                              'C06 Store.get_path through the process node raised %r; case %s'
                              % (e, tc.case_id(case)), {'case': case})
                return
            if via is not direct:
                rep.violation(dict(sig, what='walk-through-process'),
                              'C06 Store.get_path(%r) arrives at %r, the port variable is wired '
                              'to %r; case %s' % (loc + ('proc', x['port']) + tuple(x['v']),
                                                  via.path_for() if via is not None else None,
                                                  tuple(x['node']), tc.case_id(case)),
                              {'case': case})
                return
    if getattr(b.probe, 'cached', b.update) != b.update:
        rep.violation(dict(sig, what='update-object'),
                      'C06 the update object the process returned was modified: %r became %r; '
                      'case %s' % (b.update, b.probe.cached, tc.case_id(case)), {'case': case})
        return
    nodes = [tuple(x['node']) for x in b.variables]
    if len(set(nodes)) < len(nodes) or any('..' in p['p'] for p in case['ports']) \
            or any(p['t'] == 'dict' for p in case['ports']):
        rep.nontrivial.add(tc.case_id(case))


def check_case_log(rep, case):
    """The same case with an updater that keeps every update it receives and
    amounts that are mostly falsy (0, False, '', 0.0, [], None): every update of
    every port variable must arrive at its node, whatever its value."""
    rep.evaluations += 1
    b = tc.build(case, wrap='log')
    sig = {'kind': 'case', 'case': tc.case_id(case), 'form': 'every update kept'}
    try:
        eng = tc.make_engine(b)
        eng.update(1)
        after = tc.flatten(eng.state.get_value())
        eng.update(1)
        after2 = tc.flatten(eng.state.get_value())
    except Exception as e:
        rep.violation(sig, 'C06 engine raised %r for case %s (updates kept by the updater)'
                      % (e, tc.case_id(case)), {'case': case, 'log': True})
        return
    exp = {n: [] for n in b.nodes}
    for x in b.variables:
        exp[tuple(x['node'])].append(b.amount[(x['port'], tuple(x['v']))])
    for k, got in enumerate((after, after2)):
        for n in b.nodes:
            want = sorted(map(repr, exp[n] * (k + 1)))
            have = sorted(map(repr, got.get(n, ())))
            if want != have:
                rep.violation(dict(sig, what='write', update=k + 1),
                              'C06 after update %d node %s received the updates %s, the port '
                              'variables wired to it returned %s; case %s'
                              % (k + 1, n, have, want, tc.case_id(case)),
                              {'case': case, 'log': True})
                return


def dict_collisions(rep):
    """Two ports of one process wired to one store, both updating the same
    dictionary-valued variable: every one of the updates is applied, as it was
    returned (the variable's updater keeps what it receives)."""
    from vivarium.core.engine import Engine

    class Two(tc.Process):
        defaults = {'u1': None, 'u2': None}

        def ports_schema(self):
            leaf = {'_default': (), '_updater': tc.log_updater}
            return {'p1': {'d': dict(leaf)}, 'p2': {'d': dict(leaf)}}

        def next_update(self, timestep, states):
            return {'p1': {'d': self.parameters['u1']}, 'p2': {'d': self.parameters['u2']}}
    for u1, u2 in (({'k1': 1}, {'k2': 2}), ({'x': 1}, {'x': 2}), ({'k': {'a': 1}}, {'k': {'b': 2}})):
        rep.evaluations += 1
        sig = {'kind': 'dict-collision', 'updates': json.dumps([u1, u2], sort_keys=True)}
        try:
            eng = Engine(processes={'p': Two({'u1': u1, 'u2': u2})},
                         topology={'p': {'p1': ('s',), 'p2': ('s',)}},
                         display_info=False, emitter='null')
            eng.update(1)
            got = eng.state.get_path(('s', 'd')).value
        except Exception as e:
            rep.violation(dict(sig, what='raised'),
                          'C06 two ports on one store updating one dictionary-valued variable '
                          'with %r and %r raised %r' % (u1, u2, e), {})
            continue
        if sorted(map(repr, got)) != sorted(map(repr, (u1, u2))):
            rep.violation(dict(sig, received=json.dumps(list(got), sort_keys=True, default=str)),
                          'C06 two ports of one process wired to one store return the updates '
                          '%r and %r for the same dictionary-valued variable: the variable '
                          'received %r' % (u1, u2, list(got)), {})
        rep.nontrivial.add('dict-collision-' + sig['updates'])


class Holder(tc.Process):
    """declares the variables of the rewire targets"""
    defaults = {'names': ['a']}

    def ports_schema(self):
        return {'t': {n: {'_default': 0, '_emit': True} for n in self.parameters['names']}}

    def next_update(self, timestep, states):
        return {}


def check_rewire(rep, rc):
    """Store.connect: build the store, rewire the port to the target, then run an
    engine from the store: the port now reads and writes the target."""
    from vivarium.core.store import generate_state
    from vivarium.core.engine import Engine
    rep.evaluations += 1
    loc, kind = tuple(rc['loc']), rc['kind']
    vs = sorted(rc['vs']) or ['a']
    sig = {'kind': 'rewire', 'case': json.dumps({k: rc[k] for k in ('loc', 'kind', 'vs', 'p', 'tgt')},
                                                 sort_keys=True)}
    if kind == 'leaf':
        schema = {'P': {'_default': 0, '_emit': True}}
        update = {'P': 1}
    else:
        schema = {'P': {v: {'_default': 0, '_emit': True} for v in vs}}
        update = {'P': {v: 2 ** i for i, v in enumerate(vs)}}
    log = []
    probe = tc.TopoProbe({'schema': schema, 'update': update, 'log': log})
    processes, topology = {}, {}
    tc.nested_set(processes, list(loc) + ['proc'], probe)
    tc.nested_set(topology, list(loc) + ['proc'], {'P': tuple(rc['p'])})
    tstore = tuple(rc['tgt'][:-1]) if kind == 'leaf' else tuple(rc['tgt'])
    processes['zz_holder'] = Holder({'names': vs if kind != 'leaf' else ['a']})
    topology['zz_holder'] = {'t': tstore}
    before_nodes = {tuple(x['node']): 100 * (i + 1) for i, x in enumerate(rc['before'])}
    after_nodes = {tuple(x['node']): 1000 * (i + 1) for i, x in enumerate(rc['after'])}
    initial = {}
    for n, val in list(before_nodes.items()) + list(after_nodes.items()):
        tc.nested_set(initial, list(n), val)
    try:
        store = generate_state(processes, topology, initial)
        pnode = store.get_path(loc + ('proc',))
        target = store.get_path(tuple(rc['tgt']))
        pnode.connect('P', target)
        got_entry = pnode.topology['P']
        reached = pnode.get_path(('P',))
        eng = Engine(store=store, display_info=False, emitter='null')
        eng.update(1)
        after = tc.flatten(eng.state.get_value())
    except Exception as e:
        rep.violation(sig, 'C06 rewiring raised %r; case %s' % (e, sig['case']), {'rewire': rc})
        return
    if list(got_entry) != rc['newpath']:
        rep.violation(dict(sig, what='entry'),
                      'C06 after connect the topology entry is %r, Topology.tla (path_to) gives %r; '
                      'case %s' % (got_entry, rc['newpath'], sig['case']), {'rewire': rc})
        return
    if reached is not target:
        rep.violation(dict(sig, what='reach'), 'C06 the rewired port does not resolve to the target',
                      {'rewire': rc})
        return
    view = log[0] if log else None
    exp_view = {'P': after_nodes[tuple(rc['after'][0]['node'])]} if kind == 'leaf' else \
        {'P': {x['v'][0]: after_nodes[tuple(x['node'])] for x in rc['after']}}
    if view != exp_view:
        rep.violation(dict(sig, what='view'),
                      'C06 after rewiring the process reads %r, the target holds %r; case %s'
                      % (view, exp_view, sig['case']), {'rewire': rc})
        return
    amounts = {(): 1} if kind == 'leaf' else {(v,): 2 ** i for i, v in enumerate(vs)}
    for x in rc['after']:
        n = tuple(x['node'])
        if after.get(n) != after_nodes[n] + amounts[tuple(x['v'])]:
            rep.violation(dict(sig, what='write'),
                          'C06 after rewiring the update did not reach %s: %r, expected %r; case %s'
                          % (n, after.get(n), after_nodes[n] + amounts[tuple(x['v'])], sig['case']),
                          {'rewire': rc})
            return
    for n, val in before_nodes.items():
        if n not in after_nodes and after.get(n) != val:
            rep.violation(dict(sig, what='old-target'),
                          'C06 after rewiring the old target %s changed: %r -> %r; case %s'
                          % (n, val, after.get(n), sig['case']), {'rewire': rc})
            return
    rep.nontrivial.add('rewire' + sig['case'])


def run(rep, tier, scratch, only=None):
    runs = [('Topology_1port', {'MaxPorts': 1, 'Locs2': 'TRUE'}, 1)]
    if tier == 'quick':
        runs.append(('Topology_2ports', {'MaxPorts': 2, 'Locs2': 'FALSE'}, 23))
    else:
        runs.append(('Topology_2ports', {'MaxPorts': 2, 'Locs2': 'TRUE'}, 1))
    for name, consts, stride in runs:
        cases = table.run_table(rep, 'Topology', name, table.cfg(consts, LAWS), scratch)
        cases.sort(key=tc.case_id)
        sel = cases[::stride]
        if stride > 1:
            # ... and every case whose ports are two variables, one of them wired
            # by a dictionary (few; they collide on one node or sit side by side)
            picked = {tc.case_id(c) for c in sel}
            sel = sel + [c for c in cases
                         if tc.case_id(c) not in picked and len(c['ports']) == 2
                         and all(p['kind'] == 'leaf' for p in c['ports'])
                         and any(p['t'] == 'dict' for p in c['ports'])]
        if stride > 1:
            rep.notes['subsample_' + name] = 'every %dth of %d cases' % (stride, len(cases))
        for k, c in enumerate(sel):
            if only is not None and tc.case_id(c) != only:
                continue
            check_case(rep, c)
            # the same case with every update written {'_value': amount, '_updater':
            # 'accumulate'}: colliding variables and dictionary topologies always,
            # the rest sampled
            nodes = [tuple(x['node']) for x in c['vars']]
            if len(set(nodes)) < len(nodes) or any(p['t'] != 'path' for p in c['ports']) \
                    or k % 5 == 0:
                check_case(rep, c, wrap=True)
                if len(set(nodes)) < len(nodes):
                    check_case(rep, c, wrap='mixed0')
                check_case_log(rep, c)
        rep.traces += len(sel)
        if sel:
            rep.add_sample(sel[len(sel) // 2])
    rcases = table.run_table(rep, 'Topology', 'Topology_rewire',
                             table.cfg({'MaxPorts': 1, 'Locs2': 'TRUE'},
                                       ['LawRewireReachesTarget'], post='ExportRewire'), scratch)
    for rc in rcases:
        check_rewire(rep, rc)
    rep.notes['rewire_cases'] = len(rcases)
    rep.exhaustive = (tier == 'thorough')


def collisions_for(rep, scratch, stride=3):
    """For C01 ('each update ... is applied exactly once ... never lost'): the
    Topology cases in which several port variables of the process are wired to
    one node, run under the report of C01.  Every amount the process returns
    for such a node must arrive (the sum is what the node changes by)."""
    cases = table.run_table(rep, 'Topology', 'Topology_2ports_c01',
                            table.cfg({'MaxPorts': 2, 'Locs2': 'FALSE'}, LAWS), scratch)
    cases.sort(key=tc.case_id)
    hit = [c for c in cases
           if len({tuple(x['node']) for x in c['vars']}) < len(c['vars'])]
    for c in hit[::stride]:
        check_case(rep, c)
        check_case(rep, c, wrap=True)
    rep.notes['colliding_port_cases'] = len(hit[::stride])


def check(prop, tier, seed):
    rep = Report(prop, tier, seed)
    rep.rule = ('every well-formed combination of 1-2 ports of kind leaf / branch{a} / '
                'branch{a,b} / nested / glob / output x topology entry (11 relative paths '
                'with "..", _path dictionaries with renamed children) x process location '
                '(depth 0-2), enumerated and resolved by TLC; one engine per case; '
                'non-trivial = colliding variables, ".." segments or dictionary topologies')
    rep.assumptions = ['topologies in which a node would be both a variable and a branch, '
                       'that escape the root or wire into the process node are ill-formed '
                       'and outside the domain',
                       'variables accumulate, or keep every update they receive']
    with tlc.Scratch() as scratch:
        run(rep, tier, scratch)
        # reading and writing the same node while the hierarchy changes: what the
        # directors, the observer and the watcher step read each tick of a
        # structural history must be the nodes their updates go to (StoreTrace.tla,
        # rules view / zview)
        rep.guard(dict_collisions, rep, what='colliding dictionary-valued updates')
        from vv import props_store
        hs = props_store.histories(tier, seed)
        hs = hs[-(260 if tier == 'quick' else 2000):]
        props_store.validate(rep, 'C06', hs, scratch, label='store-views')
    return rep.finish()


def replay(prop, path):
    with open(path) as f:
        data = json.load(f)
    rep = Report(prop, 'quick', 0)
    case = data.get('replay', {}).get('case')
    if case and data.get('replay', {}).get('log'):
        check_case_log(rep, case)
    elif case:
        check_case(rep, case)
    return rep.finish(write=False)
