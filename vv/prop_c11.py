"""C11: division. Dividers.tla gives, for every divider and mother value, the
set of daughter pairs the divider may produce, and the laws the statement
promises (totals conserved, even split, copies, zeros, key partition).  Real
compartments are divided by a real engine (explicit daughter processes, as
Division/MetaDivision do); the observed daughters must lie in the relation,
explicit daughter state must win, defaults must complete, and afterwards the
daughters must be independent of each other and of everything outside."""
import copy
import json
import random

import numpy as np

from vv import tlc, table
from vv.verdict import Report

import vivarium  # noqa
from vivarium.core.engine import Engine
from vivarium.core.process import Process
from vivarium.library.units import units

LAWS = ['LawConserved', 'LawSplitEven', 'LawSplitShift', 'LawCopies', 'LawZero', 'LawPartition', 'LawNonEmpty']


def custom_divider(value, state):
    return [value + state['other'], value - state['other']]


class Cell(Process):
    """vars: {name: schema}; adds 1 to 'tick' each time; optionally mutates 'mut'."""
    defaults = {'vars': {}, 'mutate': False, 'path': ('st',)}

    def ports_schema(self):
        sch = {k: dict(v) for k, v in self.parameters['vars'].items()}
        sch['tick'] = {'_default': 0, '_divider': 'zero', '_emit': True}
        return {'st': sch}

    def next_update(self, timestep, states):
        upd = {'tick': 1}
        if self.parameters['mutate'] and 'mut' in states['st']:
            upd['mut'] = {'_add': [{'key': 'new%d' % states['st']['tick'], 'state': {'q': 1}}]}
        return {'st': upd}


class DivDirector(Process):
    """issues the _divide updates; like an environment process it declares, for
    every agent, a variable env/m that the agents' own processes do not declare"""
    defaults = {'script': {}, 'env_divider': None}

    def __init__(self, parameters=None):
        super().__init__(parameters)
        self.n = 0

    def ports_schema(self):
        sub = {}
        if self.parameters['env_divider'] is not None:
            sub = {'env': {'m': {'_default': 1, '_divider': self.parameters['env_divider'],
                                 '_emit': True}}}
        return {'agents': {'*': sub}}

    def next_update(self, timestep, states):
        upd = self.parameters['script'].get(self.n)
        self.n += 1
        return {'agents': upd} if upd else {}


def daughter(key, vars_, path, explicit=None, mutate=False):
    return {'key': key,
            'processes': {'p': Cell({'vars': vars_, 'mutate': mutate})},
            'topology': {'p': {'st': path}},
            'initial_state': explicit or {}}


def nest(path, value):
    for k in reversed(path):
        value = {k: value}
    return value


def get(d, path):
    for k in path:
        d = d[k]
    return d


def run_division(vars_, values, path=('st',), explicit1=None, seed=0, generations=1,
                 ticks_after=2, mutate=False, env_divider=None, env_value=None):
    """Divide mother 'm' (variables vars_ holding values) at tick 1; optionally
    divide daughter 'd1' again at tick 3. Returns the engine and snapshots."""
    random.seed(seed)
    np.random.seed(seed)
    script = {0: {'_divide': {'mother': 'm', 'daughters': [
        daughter('d1', vars_, path, explicit1, mutate), daughter('d2', vars_, path)]}}}
    if generations == 2:
        script[2] = {'_divide': {'mother': 'd1', 'daughters': [
            daughter('d11', vars_, path), daughter('d12', vars_, path)]}}
    procs = {'director': DivDirector({'script': script, 'env_divider': env_divider}),
             'agents': {'m': {'p': Cell({'vars': vars_})},
                        'z': {'p': Cell({'vars': vars_})}}}
    topo = {'director': {'agents': ('agents',)},
            'agents': {'m': {'p': {'st': path}}, 'z': {'p': {'st': path}}}}
    init = {'agents': {'m': nest(path, copy.deepcopy(values)),
                       'z': nest(path, copy.deepcopy(values))}}
    if env_divider is not None:
        init['agents']['m']['env'] = {'m': env_value}
        init['agents']['z']['env'] = {'m': env_value}
    eng = Engine(processes=procs, topology=topo, initial_state=init,
                 display_info=False, emitter='null')
    snaps = []
    for _ in range(1 + ticks_after + (2 if generations == 2 else 0)):
        eng.update(1)
        snaps.append(copy.deepcopy(eng.state.get_value(
            condition=lambda n: not isinstance(n.value, Process))))
    return eng, snaps


def strip(state):
    """drop process entries from a get_value() tree"""
    if isinstance(state, dict):
        return {k: strip(v) for k, v in state.items()
                if not (isinstance(v, tuple) and v and isinstance(v[0], Process))}
    return state


def viol(rep, what, case, **extra):
    rep.violation({'kind': 'case', 'case': json.dumps(case, sort_keys=True, default=str)},
                  'C11 %s; case %s' % (what, json.dumps(case, sort_keys=True, default=str)),
                  dict(extra, case=case))


def check_scalar(rep, row, C, seeds):
    d, v = row['d'], row['v']
    outs = {tuple(p) for p in row['outs']}
    div = {'divider': 'set_value', 'config': {'value': C}} if d == 'set_value' else d
    vars_ = {'a': {'_default': 0, '_divider': div, '_emit': True},
             'n': {'_default': 4, '_divider': 'null'},
             'w': {'_default': 6}}
    seen = set()
    for path in (('st',), ('deep', 'w')):
        for seed in seeds:
            rep.evaluations += 1
            case = {'divider': d, 'v': v, 'path': list(path), 'seed': seed}
            try:
                eng, snaps = run_division(vars_, {'a': v, 'n': 9, 'w': 2}, path=path,
                                          explicit1=nest(path, {'w': 77}), seed=seed,
                                          env_divider=div, env_value=v)
            except Exception as e:
                viol(rep, 'division raised %r' % (e,), case)
                return
            s = strip(snaps[0])['agents']
            if set(s) != {'d1', 'd2', 'z'}:
                viol(rep, 'after _divide the branch holds %s, not the two daughters and the '
                     'sibling' % sorted(s), case)
                return
            a1, a2 = get(s['d1'], path)['a'], get(s['d2'], path)['a']
            pair = (int(a1), int(a2))
            seen.add(pair)
            if pair not in outs or type(a1) not in (int, np.int64, np.int32):
                viol(rep, 'divider %s turned %r into %r, allowed %s' % (d, v, (a1, a2), sorted(outs)),
                     case)
                return
            # a variable declared only by a process outside the compartment (through
            # a glob port) is divided like any other
            e1, e2 = s['d1']['env']['m'], s['d2']['env']['m']
            if (int(e1), int(e2)) not in outs:
                viol(rep, 'variable declared by an outer glob port: divider %s turned %r into '
                     '%r, allowed %s' % (d, v, (e1, e2), sorted(outs)), case)
                return
            # null divider: the variable is skipped, the default completes it
            if get(s['d1'], path)['n'] != 4 or get(s['d2'], path)['n'] != 4:
                viol(rep, 'null-divided variable holds %r / %r, not its default 4'
                     % (get(s['d1'], path)['n'], get(s['d2'], path)['n']), case)
                return
            # explicit daughter state overrides the divided value (default divider: set)
            if get(s['d1'], path)['w'] != 77 or get(s['d2'], path)['w'] != 2:
                viol(rep, 'explicit daughter state: w is %r / %r, expected 77 / 2'
                     % (get(s['d1'], path)['w'], get(s['d2'], path)['w']), case)
                return
            # independence: later ticks of the daughters touch only themselves
            last = strip(snaps[-1])['agents']
            for dk in ('d1', 'd2'):
                exp = copy.deepcopy(get(s[dk], path))
                exp['tick'] = exp['tick'] + len(snaps) - 1
                if get(last[dk], path) != exp:
                    viol(rep, 'daughter %s changed beyond its own ticks: %r -> %r'
                         % (dk, get(s[dk], path), get(last[dk], path)), case)
                    return
            if last['d1']['env'] != s['d1']['env'] or last['d2']['env'] != s['d2']['env'] \
                    or last['z']['env'] != {'m': v}:
                viol(rep, 'environment-declared variables changed after the division: %r %r %r'
                     % (last['d1']['env'], last['d2']['env'], last['z']['env']), case)
                return
            zexp = {'a': v, 'n': 9, 'w': 2, 'tick': len(snaps)}
            if get(last['z'], path) != zexp:
                viol(rep, 'the sibling compartment changed: %r, expected %r'
                     % (get(last['z'], path), zexp), case)
                return
            p1 = eng.state.get_path(('agents', 'd1', 'p')).value
            p2 = eng.state.get_path(('agents', 'd2', 'p')).value
            if p1 is p2:
                viol(rep, 'the daughters share one process instance', case)
                return
    rep.notes.setdefault('outcomes_observed', {})['%s(%d)' % (d, v)] = \
        '%d of %d allowed' % (len(seen), len(outs))
    if len(outs) > 1:
        rep.nontrivial.add('%s-%d' % (d, v))


def check_float_split(rep, v):
    for carrier, mk in (('float', lambda n: float(n) + 0.5), ('quantity', lambda n: (n + 0.5) * units.g)):
        rep.evaluations += 1
        vars_ = {'a': {'_default': mk(0), '_divider': 'split', '_emit': False}}
        case = {'divider': 'split', 'v': repr(mk(v)), 'carrier': carrier}
        try:
            eng, snaps = run_division(vars_, {'a': mk(v)})
        except Exception as e:
            viol(rep, 'division raised %r' % (e,), case)
            continue
        s = strip(snaps[0])['agents']
        a1, a2 = s['d1']['st']['a'], s['d2']['st']['a']
        if not (a1 == mk(v) / 2 and a2 == mk(v) / 2 and a1 + a2 == mk(v)):
            viol(rep, 'split of %r gave %r, %r' % (mk(v), a1, a2), case)


def check_glob_branch_divider(rep):
    """A branch-level divider declared for the children of a glob port
    ({'*': {'_divider': f, 'copies': .., 'load': ..}}): over two generations of
    divisions by key each daughter's child holds exactly the declared variables
    with the shares the divider returned, and the divider is handed exactly
    those variables."""
    handed = []

    def halve(state):
        handed.append(dict(state))
        return [{k: v // 2 for k, v in state.items()},
                {k: v - v // 2 for k, v in state.items()}]

    class Plasmids(Process):
        def ports_schema(self):
            return {'plasmids': {'*': {'_divider': halve, 'copies': {'_default': 0},
                                       'load': {'_default': 0}}}}

        def next_update(self, timestep, states):
            return {}
    rep.evaluations += 1
    case = {'divider': 'branch-level, children of a glob port', 'generations': 2}
    try:
        eng = Engine(processes={'agents': {'m': {'p': Plasmids()}}},
                     topology={'agents': {'m': {'p': {'plasmids': ('plasmids',)}}}},
                     initial_state={'agents': {'m': {'plasmids': {'pA': {'copies': 7,
                                                                          'load': 10}}}}},
                     display_info=False, emitter='null')
        for mother, d1, d2 in (('m', 'a', 'b'), ('a', 'aa', 'ab')):
            eng.apply_update({'agents': {'_divide': {
                'mother': mother, 'daughters': [{'key': d1}, {'key': d2}]}}}, eng.state)
            eng.state.build_topology_views()
        got = {k: v['plasmids'] for k, v in strip(eng.state.get_value())['agents'].items()}
    except Exception as e:
        viol(rep, 'division raised %r' % (e,), case)
        return
    want = {'b': {'pA': {'copies': 4, 'load': 5}}, 'aa': {'pA': {'copies': 1, 'load': 2}},
            'ab': {'pA': {'copies': 2, 'load': 3}}}
    if got != want or handed != [{'copies': 7, 'load': 10}, {'copies': 3, 'load': 5}]:
        viol(rep, 'after two generations the agents hold %r (expected %r); the divider was '
             'handed %r' % (got, want, handed), case)
    rep.nontrivial.add('glob-branch-divider')


def check_quantity_dividers(rep):
    """zero / set / set_value on a variable with units, emitted: the daughters
    hold quantities in the variable's units (zero of them for `zero`) and the run
    goes on - the next rows are emitted and the variable can be updated."""
    for divider, want in (('zero', (0 * units.g, 0 * units.g)),
                          ('set', (2.5 * units.g, 2.5 * units.g))):
        rep.evaluations += 1
        vars_ = {'a': {'_default': 0.5 * units.g, '_divider': divider, '_emit': True}}
        case = {'divider': divider, 'value': '2.5 g', 'carrier': 'quantity, emitted'}
        try:
            eng, snaps = run_division(vars_, {'a': 2.5 * units.g}, ticks_after=2)
        except Exception as e:
            viol(rep, 'division (or the run after it) raised %r' % (e,), case)
            continue
        s = strip(snaps[0])['agents']
        got = (s['d1']['st']['a'], s['d2']['st']['a'])
        ok = all(hasattr(g, 'units') and str(g.units) == 'gram' and g == w
                 for g, w in zip(got, want))
        if not ok:
            viol(rep, 'divider %s on 2.5 g gave %r, expected %r' % (divider, got, want), case)
    rep.nontrivial.add('quantity-dividers')


def check_big_split(rep, row):
    """LawSplitShift instantiated beyond 2^53: the mother holds v + 2m with
    m = 2^59 (a count no float can hold exactly); each daughter must hold m more
    than a pair Dividers.tla allows for v."""
    m = 2 ** 59
    v = row['v']
    outs = {(p[0] + m, p[1] + m) for p in row['outs']}
    rep.evaluations += 1
    vars_ = {'a': {'_default': 0, '_divider': 'split', '_emit': False}}
    case = {'divider': 'split', 'v': 'v+2^60 with v=%d' % v, 'carrier': 'big int'}
    try:
        eng, snaps = run_division(vars_, {'a': v + 2 * m})
    except Exception as e:
        viol(rep, 'division raised %r' % (e,), case)
        return
    s = strip(snaps[0])['agents']
    a1, a2 = s['d1']['st']['a'], s['d2']['st']['a']
    if (a1, a2) not in outs:
        viol(rep, 'split of %d gave %r, %r (sum %d); allowed %s'
             % (v + 2 * m, a1, a2, a1 + a2, sorted(outs)), case)
    rep.nontrivial.add('bigsplit-%d' % v)


def check_infinite(rep):
    """split of an infinite amount (a concentration considered infinite in an
    environment, written float('inf') or 'Infinity'): both daughters keep it"""
    for name, val in (('inf', float('inf')), ('Infinity', 'Infinity')):
        rep.evaluations += 1
        vars_ = {'a': {'_default': 0.0, '_divider': 'split', '_updater': 'set', '_emit': False}}
        case = {'divider': 'split', 'v': name}
        try:
            eng, snaps = run_division(vars_, {'a': val})
        except Exception as e:
            viol(rep, 'division raised %r' % (e,), case)
            continue
        s = strip(snaps[0])['agents']
        a1, a2 = s['d1']['st']['a'], s['d2']['st']['a']
        if not (a1 == val and a2 == val):
            viol(rep, 'split of %r gave %r, %r' % (val, a1, a2), case)


def check_dict(rep, row):
    keys = sorted(row['keys'])
    outs = {(tuple(sorted(p[0])), tuple(sorted(p[1]))) for p in row['outs']}
    rep.evaluations += 1
    vars_ = {'a': {'_default': {}, '_divider': 'split_dict', '_updater': 'set'}}
    mother = {k: i + 1 for i, k in enumerate(keys)}
    case = {'divider': 'split_dict', 'keys': keys}
    try:
        eng, snaps = run_division(vars_, {'a': dict(mother)})
    except Exception as e:
        viol(rep, 'division raised %r' % (e,), case)
        return
    s = strip(snaps[0])['agents']
    a1, a2 = s['d1']['st']['a'], s['d2']['st']['a']
    pair = (tuple(sorted(a1)), tuple(sorted(a2)))
    if pair not in outs or any(mother[k] != v for k, v in list(a1.items()) + list(a2.items())):
        viol(rep, 'split_dict turned %r into %r / %r, allowed key partitions %s'
             % (mother, a1, a2, sorted(outs)), case)
    if len(keys) >= 2:
        rep.nontrivial.add('dict-' + ','.join(keys))


def check_custom(rep, row):
    v, o = row['v'], row['o']
    outs = {tuple(p) for p in row['outs']}
    rep.evaluations += 1
    vars_ = {'a': {'_default': 0,
                   '_divider': {'divider': custom_divider, 'topology': {'other': ('..', 'o')}}},
             'o': {'_default': 0}}
    case = {'divider': 'custom(topology)', 'v': v, 'o': o}
    try:
        eng, snaps = run_division(vars_, {'a': v, 'o': o})
    except Exception as e:
        viol(rep, 'division raised %r' % (e,), case)
        return
    s = strip(snaps[0])['agents']
    pair = (s['d1']['st']['a'], s['d2']['st']['a'])
    if pair not in outs:
        viol(rep, 'divider with topology gave %r, specification %s' % (pair, sorted(outs)), case)
    if (s['d1']['st']['o'], s['d2']['st']['o']) != (o, o):
        viol(rep, 'the sibling variable read by the divider was not copied: %r'
             % ((s['d1']['st']['o'], s['d2']['st']['o']),), case)


def check_special(rep, table_rows):
    # no_divide: dividing must fail
    rep.evaluations += 1
    vars_ = {'a': {'_default': 0, '_divider': 'no_divide'}}
    try:
        run_division(vars_, {'a': 3})
        viol(rep, 'a variable marked no_divide was divided without error', {'divider': 'no_divide'})
    except Exception:
        pass
    # a divider declared on a branch takes precedence over the leaves below it
    rep.evaluations += 1

    class BranchCell(Cell):
        def ports_schema(self):
            return {'st': {'br': {'_divider': 'set',
                                  'x': {'_default': 0, '_divider': 'zero'},
                                  'y': {'_default': 0, '_divider': 'zero'}},
                           'tick': {'_default': 0, '_divider': 'zero'}}}

    script = {0: {'_divide': {'mother': 'm', 'daughters': [
        {'key': 'd1', 'processes': {'p': BranchCell()}, 'topology': {'p': {'st': ('st',)}},
         'initial_state': {}},
        {'key': 'd2', 'processes': {'p': BranchCell()}, 'topology': {'p': {'st': ('st',)}},
         'initial_state': {}}]}}}
    eng = Engine(processes={'director': DivDirector({'script': script}),
                            'agents': {'m': {'p': BranchCell()}}},
                 topology={'director': {'agents': ('agents',)},
                           'agents': {'m': {'p': {'st': ('st',)}}}},
                 initial_state={'agents': {'m': {'st': {'br': {'x': 3, 'y': 5}}}}},
                 display_info=False, emitter='null')
    eng.update(1)
    s = strip(eng.state.get_value())['agents']
    got = (s.get('d1', {}).get('st', {}).get('br'), s.get('d2', {}).get('st', {}).get('br'))
    if got != ({'x': 3, 'y': 5}, {'x': 3, 'y': 5}):
        viol(rep, 'branch-level set divider gave %r, expected copies of the branch' % (got,),
             {'divider': 'branch-level set over zero leaves'})
    # ... and an explicit state for one daughter does not leak into the other
    rep.evaluations += 1
    script2 = {0: {'_divide': {'mother': 'm', 'daughters': [
        {'key': 'd1', 'processes': {'p': BranchCell()}, 'topology': {'p': {'st': ('st',)}},
         'initial_state': {'st': {'br': {'x': 77}}}},
        {'key': 'd2', 'processes': {'p': BranchCell()}, 'topology': {'p': {'st': ('st',)}},
         'initial_state': {}}]}}}
    eng = Engine(processes={'director': DivDirector({'script': script2}),
                            'agents': {'m': {'p': BranchCell()}}},
                 topology={'director': {'agents': ('agents',)},
                           'agents': {'m': {'p': {'st': ('st',)}}}},
                 initial_state={'agents': {'m': {'st': {'br': {'x': 3, 'y': 5}}}}},
                 display_info=False, emitter='null')
    eng.update(1)
    s = strip(eng.state.get_value())['agents']
    got = (s.get('d1', {}).get('st', {}).get('br'), s.get('d2', {}).get('st', {}).get('br'))
    if got != ({'x': 77, 'y': 5}, {'x': 3, 'y': 5}):
        viol(rep, 'explicit state of daughter d1 under a branch-level set divider: daughters '
             'hold %r, expected ({x: 77, y: 5}, {x: 3, y: 5})' % (got,),
             {'divider': 'branch-level set', 'explicit': 'd1 br/x=77'})
    # ... also when what the divider hands both daughters is an (empty) dictionary
    for mval in ({}, {'k': 1}):
        rep.evaluations += 1
        vars_ = {'a': {'_default': {}, '_divider': 'set', '_updater': 'set'}}
        case = {'divider': 'set', 'value': repr(mval), 'explicit': 'd1 a/n=5'}
        try:
            eng, snaps = run_division(vars_, {'a': dict(mval)},
                                      explicit1={'st': {'a': {'n': 5}}})
        except Exception as e:
            viol(rep, 'division raised %r' % (e,), case)
            continue
        s = strip(snaps[0])['agents']
        got = (s['d1']['st']['a'], s['d2']['st']['a'], s['z']['st']['a'])
        if got != (dict(mval, n=5), mval, mval):
            viol(rep, 'explicit state {a: {n: 5}} of daughter d1, mother holding %r: d1, d2 and '
                 'the sibling hold %r, expected %r' % (mval, got, (dict(mval, n=5), mval, mval)),
                 case)
    rep.nontrivial.add('explicit-dict')
    # two generations: the second division divides what the first produced
    by = {(r['d'], r['v']): {tuple(p) for p in r['outs']} for r in table_rows}
    for seed in range(4):
        rep.evaluations += 1
        vars_ = {'a': {'_default': 0, '_divider': 'split', '_emit': True}}
        eng, snaps = run_division(vars_, {'a': 7}, generations=2, seed=seed)
        s1 = strip(snaps[0])['agents']
        s3 = strip(snaps[2])['agents']
        a1 = s1['d1']['st']['a']
        if set(s3) != {'d11', 'd12', 'd2', 'z'}:
            viol(rep, 'after the second division the branch holds %s' % sorted(s3),
                 {'generations': 2, 'seed': seed})
            continue
        pair = (s3['d11']['st']['a'], s3['d12']['st']['a'])
        if pair not in by[('split', a1)] or s3['d2']['st']['a'] != s1['d2']['st']['a']:
            viol(rep, 'second generation: %r split into %r (allowed %s); d2 %r -> %r'
                 % (a1, pair, sorted(by[('split', a1)]), s1['d2']['st']['a'],
                    s3['d2']['st']['a']), {'generations': 2, 'seed': seed})
    rep.nontrivial.add('generations')
    # mutable values: a dictionary divided with `set`, then changed in one daughter
    rep.evaluations += 1
    vars_ = {'mut': {'_default': {}, '_divider': 'set', '_updater': 'dict_value'}}
    eng, snaps = run_division(vars_, {'mut': {'k': {'q': 0}}}, mutate=True, ticks_after=2)
    last = strip(snaps[-1])['agents']
    if last['d2']['st']['mut'] != {'k': {'q': 0}} or last['z']['st']['mut'] != {'k': {'q': 0}}:
        viol(rep, 'an in-place update of daughter d1 changed daughter d2 / the sibling: '
             'd1 %r d2 %r z %r' % (last['d1']['st']['mut'], last['d2']['st']['mut'],
                                   last['z']['st']['mut']),
             {'divider': 'set', 'value': 'dict', 'updater': 'dict_value'})
    rep.nontrivial.add('mutable-set')


def run(rep, tier, scratch):
    consts = {'MaxV': 8, 'SetValueC': 6}
    t = table.run_table(rep, 'Dividers', 'Dividers_' + tier, table.cfg(consts, LAWS), scratch)
    if not t:
        return
    seeds = range(3) if tier == 'quick' else range(12)
    for row in t['scalar']:
        if tier == 'quick' and row['v'] in (4, 6, 7):
            continue
        rep.guard(check_scalar, rep, row, t['setvalue'], seeds, what='scalar divider', detail=row)
    for v in (0, 1, 3, 8):
        rep.guard(check_float_split, rep, v, what='float split', detail=v)
    for row in t['scalar']:
        if row['d'] == 'split':
            rep.guard(check_big_split, rep, row, what='big split', detail=row)
    rep.guard(check_infinite, rep, what='infinite split')
    rep.guard(check_quantity_dividers, rep, what='dividers on quantities')
    rep.guard(check_glob_branch_divider, rep, what='branch-level divider under a glob port')
    for row in t['dict']:
        rep.guard(check_dict, rep, row, what='split_dict', detail=row)
    for row in t['custom']:
        rep.guard(check_custom, rep, row, what='custom divider', detail=row)
    rep.guard(check_special, rep, t['scalar'], what='special dividers')
    rep.traces = len(t['scalar']) + len(t['dict']) + len(t['custom'])
    rep.add_sample(t['scalar'][len(t['scalar']) // 2])
    rep.add_sample(t['dict'][-1])


def check(prop, tier, seed):
    rep = Report(prop, tier, seed)
    rep.rule = ('every (divider, mother value 0..8) of Dividers.tla x compartment depth 1-2 x '
                'seeds, split_dict over every key set of <= 3 keys, a custom divider with '
                'topology, set_value with config, null / no_divide, a branch-level divider, '
                'explicit daughter state, float and quantity carriers, two generations, a '
                'mutable value; observed daughters must lie in the relation TLC computed; '
                'non-trivial = dividers with more than one allowed outcome, key sets >= 2, '
                'second generations, mutable values')
    rep.assumptions = ['daughters list their processes and topology explicitly (as Division '
                       'and MetaDivision do)', 'randomised dividers are sampled under fixed seeds']
    with tlc.Scratch() as scratch:
        run(rep, tier, scratch)
    return rep.finish()


def replay(prop, path):
    rep = Report(prop, 'quick', 0)
    with tlc.Scratch() as scratch:
        run(rep, 'quick', scratch)
    return rep.finish(write=False)
