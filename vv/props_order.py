"""C04, second half: listing order is moot.

For scenarios whose updates commute (all probe variables accumulate) the
real engine is run under several permutations of the insertion order of
processes, flow steps, declared variables and initial-state keys.  Every
permuted run must itself be accepted by EngineTrace.tla (which checks that
each invocation saw the committed snapshot), and all runs of one scenario
must deliver the same rows.
"""
import copy
import json
import random

from vv import tlc, engine_run as er


def permute(sc, rng):
    p = copy.deepcopy(sc)
    order = list(p.get('order', list(p['procs'])))
    rng.shuffle(order)
    p['order'] = order
    p['procs'] = {k: p['procs'][k] for k in order}
    for cfg in p['procs'].values():
        v = list(cfg['vars'])
        rng.shuffle(v)
        cfg['vars'] = v
    init = list(p.get('init', {}).items())
    rng.shuffle(init)
    p['init'] = dict(init)
    if p.get('steps'):
        so = list(p.get('step_order', list(p['steps'])))
        seq = [s for s in so if p['steps'][s].get('deps') is None]
        graph = [s for s in so if p['steps'][s].get('deps') is not None]
        rng.shuffle(graph)
        p['step_order'] = seq + graph
        for cfg in p['steps'].values():
            v = list(cfg['vars'])
            rng.shuffle(v)
            cfg['vars'] = v
    return p


def rows_of(recs):
    return [(r['time'], sorted(r['vals'].items())) for r in recs if r['ev'] == 'row']


def permutation_check(rep, tier, seed, scratch):
    from vv.props_engine import scenario_hash, RULE_OWNER
    rng = random.Random(seed + 4)
    nscen = 150 if tier == 'quick' else 1200
    k = 3 if tier == 'quick' else 6
    groups, traces, scs = [], [], []
    for i in range(nscen):
        base = er.random_scenario(rng, nprocs=rng.randint(2, 4),
                                  state_dependent=(i % 2 == 0),
                                  max_ts=rng.choice([3, 5, 7]),
                                  nsteps=rng.choice([0, 0, 2, 3]))
        if i % 2:
            base['calls'] = [[rng.randint(6, 14), True]]
        base['init'] = {'s': rng.randint(0, 3), 'p1': rng.randint(0, 2)}
        idx = []
        for j in range(k):
            sc = base if j == 0 else permute(base, rng)
            raw = er.run_scenario(sc)
            idx.append(len(traces))
            traces.append(er.to_records(sc, raw))
            scs.append(sc)
        groups.append(idx)
    rej, res, diags = tlc.validate_traces(traces, scratch, label='perm')
    rep.add_tlc('EngineTrace(perm)', res)
    rep.traces += len(traces) - len(rej)
    rep.evaluations += len(traces)
    rep.notes['permutation_groups'] = len(groups)
    rep.notes['permutations_per_scenario'] = k
    for t, stuck in sorted(rej.items()):
        if t < 0:
            continue
        rules = tlc.pick_failing_rules(diags.get(t, []))
        owners = set()
        for r in rules:
            owners.update(RULE_OWNER.get(r, []))
        if 'C04' in owners:
            rep.violation({'kind': 'trace', 'rules': sorted(rules),
                           'scenario': scenario_hash(scs[t])},
                          'permuted run rejected at record %d: %s' % (stuck, sorted(rules)),
                          {'scenario': scs[t], 'stuck_at': stuck, 'trace': traces[t]})
    nontrivial = 0
    for idx in groups:
        bad = [i for i in idx if i in rej]
        if bad and len(bad) < len(idx):
            # the same composite is scheduled correctly under one listing order
            # and not under another: the listing order is not moot
            i = bad[0]
            rules = sorted(tlc.pick_failing_rules(diags.get(i, [])))
            rep.violation(
                {'kind': 'permutation-rejected', 'rules': rules,
                 'scenario': scenario_hash(scs[idx[0]])},
                'the run is accepted under one listing order and rejected under another '
                '(record %d, rules %s)' % (rej[i], rules),
                {'accepted': scs[[j for j in idx if j not in rej][0]], 'rejected': scs[i],
                 'stuck_at': rej[i], 'trace': traces[i]})
            continue
        if bad:
            continue
        base_rows = rows_of(traces[idx[0]])
        # a group is non-trivial when two processes write the shared variable
        if sum(1 for c in scs[idx[0]]['procs'].values() if 's' in c['writes']) >= 2:
            nontrivial += 1
            rep.nontrivial.add('perm-' + scenario_hash(scs[idx[0]]))
        for i in idx[1:]:
            if rows_of(traces[i]) != base_rows:
                rep.violation(
                    {'kind': 'permutation', 'scenario': scenario_hash(scs[idx[0]])},
                    'emitted trajectory differs under a permutation of listing order',
                    {'base': scs[idx[0]], 'permuted': scs[i],
                     'base_rows': base_rows, 'permuted_rows': rows_of(traces[i])})
                break
    rep.notes['permutation_groups_nontrivial'] = nontrivial
