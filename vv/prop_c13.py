"""C13: parallel processes.

(1) TLC model-checks Parallel.tla (command protocol: never a send while a
    command is pending, no use after end, end() always terminates and leaves
    the worker exited), and shows that the pinned end() (deviation
    EndWhilePending) violates it.
(2) Protocol scenarios - deletion / division / move of a subtree holding a
    parallel process that is idle, due, or has an update in flight; an
    exception aborting an update; Engine.end() once, twice, or never before the
    engine is dropped - are run on the real engine; the hook events of
    ParallelProcess and the observed sets of live OS workers are validated by
    ParallelTrace.tla.
(3) Transparency: scheduler scenarios are run serially and with subsets of the
    processes parallel; the emitted rows, the final state and the published
    composite must be identical."""
import contextlib
import io
import json
import os
import random

from vv import tlc, engine_run as er, parallel_run as pr
from vv.verdict import Report, load_known


def model_check(rep, tier, scratch):
    for name, dev, expect in (('MC_Parallel', '{}', False),
                              ('MC_Parallel_dev_EndWhilePending', '{"EndWhilePending"}', True)):
        text = ('SPECIFICATION Spec\nCONSTANTS\n  Workers = {"w1", "w2"%s}\n  Dev = %s\n'
                '  MaxCmds = %d\nCHECK_DEADLOCK FALSE\nINVARIANTS\n  TypeOK\n'
                '  C13_NoSendWhilePending\n  C13_NoUseAfterEnd\n  C13_NoSpuriousRecv\n'
                '  C13_EndedMeansExited\nPROPERTIES\n  C13_EndTerminates\n  C13_RecvReturns\n'
                % (', "w3"' if tier == 'thorough' and not expect else '', dev,
                   4 if tier == 'quick' else 5))
        path = os.path.join(scratch, name + '.cfg')
        with open(path, 'w') as f:
            f.write(text)
        res = tlc.run('Parallel', path, scratch, workers=16, timeout=2400)
        tlc.require_clean(res, name)
        if expect:
            if not res.violated:
                raise tlc.MachineryFailure('deviation EndWhilePending not detected by TLC')
            rep.notes.setdefault('deviation_counterexamples', []).append(
                {'config': name, 'violated': res.violated})
            continue
        rep.add_tlc(name, res)
        if res.violated:
            rep.violation({'kind': 'spec', 'violated': res.violated},
                          'specification property %s fails' % res.violated,
                          {'tlc_tail': res.stdout[-3000:]})
        elif not res.ok:
            raise tlc.MachineryFailure('%s did not finish: %s' % (name, res.error))


def op_kind(sc):
    ops = sorted(v[0] for v in sc['ops'].values())
    return ','.join(ops) or ('bomb' if sc.get('bomb') else 'none')


def protocol(rep, tier, scratch):
    scs = pr.protocol_scenarios(tier)
    traces, names = [], []
    hangs = 0
    ran = []
    for sc in scs:
        if hangs >= 3:
            # three scenarios have hung (a minute each): the verdict is in
            break
        pvals = []
        recs, nm = pr.rename(pr.run_protocol(sc, values=pvals))
        if any(r.get('ev') == 'hang' for r in recs):
            hangs += 1
        elif not sc.get('bomb') and not any(r.get('ev') == 'error' for r in recs):
            # transparency: the same scenario with every process serial gives the same
            # values tick by tick - also in the store outside the compartments that
            # the compartment processes write to (the last update of a process that
            # is deleted or divided in the batch in which it is due)
            svals = []
            pr.run_protocol(sc, parallel=False, values=svals)
            rep.evaluations += 1
            if svals != pvals:
                tick = next((j for j, (x, y) in enumerate(zip(svals, pvals)) if x != y),
                            min(len(svals), len(pvals)))
                rep.violation(
                    {'kind': 'protocol-differential', 'op': op_kind(sc),
                     'first_comp_ts': str(sc['comps'][0][1]), 'long': bool(sc.get('long'))},
                    'a protocol scenario gives other values with parallel processes than with '
                    'serial ones, first after update %d: serial %s parallel %s; scenario %s'
                    % (tick + 1, json.dumps(svals[tick:tick + 1]), json.dumps(pvals[tick:tick + 1]),
                       json.dumps(sc)), {'scenario': sc})
        traces.append(recs)
        names.append(nm)
        ran.append(sc)
    if len(ran) < len(scs):
        rep.notes['protocol_scenarios_not_run_after_hangs'] = len(scs) - len(ran)
    scs = ran
    rej, res, diags = tlc.validate_traces(traces, scratch, module='ParallelTrace',
                                          cfg='ParallelTrace.cfg', label='parallel')
    rep.add_tlc('ParallelTrace', res)
    rep.traces += len(traces) - len([t for t in rej if t >= 0])
    rep.evaluations += len(traces)
    for sc in scs:
        if sc['ops'] or sc.get('bomb') or len(sc['finish']) != 1:
            rep.nontrivial.add(json.dumps(sc, sort_keys=True))
    rep.add_sample({'scenario': scs[0], 'trace_tail': traces[0][-8:]})
    if res.violated:
        rep.violation({'kind': 'trace-invariant', 'violated': sorted(res.violated)},
                      'invariant %s fails on a state reconstructed from a trace' % res.violated,
                      {'tlc_tail': res.stdout[-4000:]})
    for t, stuck in sorted(rej.items()):
        if t < 0:
            continue
        rules = tlc.pick_failing_rules(diags.get(t, []))
        rec = traces[t][stuck - 1] if 0 < stuck <= len(traces[t]) else {}
        rep.violation(
            {'kind': 'trace', 'rules': sorted(rules), 'op': op_kind(scs[t]),
             'first_comp_ts': str(scs[t]['comps'][0][1]), 'finish': scs[t]['finish'],
             'bomb': bool(scs[t].get('bomb'))},
            'parallel protocol trace rejected at record %d (%s): rules %s; scenario %s'
            % (stuck, json.dumps(rec), sorted(rules), json.dumps(scs[t])),
            {'scenario': scs[t], 'stuck_at': stuck, 'rules': sorted(rules),
             'trace_tail': traces[t][max(0, stuck - 12):stuck]})


def run_rows(sc, parallel):
    from vv import probes
    prec = sc.get('precision')
    t0 = sc.get('t0', 0)
    if prec is not None:
        t0 = round(t0 * 10.0 ** -prec, prec)
    rec = probes.reset(t0)
    sc2 = json.loads(json.dumps(sc))
    for pid in parallel:
        sc2['procs'][pid]['silent'] = True
    with contextlib.redirect_stdout(io.StringIO()):
        eng = er.build_engine(sc2, parallel=parallel)
        rec.engine = eng
        err = None
        try:
            for iv, force in sc2['calls']:
                if prec is not None:
                    iv = round(iv * 10.0 ** -prec, prec)
                if force:
                    eng.update(iv)
                else:
                    eng.run_for(iv)
            final = {k: int(v) for k, v in eng.state.get_value()['v'].items()} \
                if 'v' in eng.state.inner else {}
            comp = sorted(str(p) for p in eng.process_paths)
            front = er.front_projection(eng)
        except Exception as e:
            err = repr(e)[:200]
            final, comp, front = {}, [], {}
        finally:
            try:
                eng.end()
            except Exception as e:
                err = (err or '') + ' end: ' + repr(e)[:200]
    rows = [(e[1], sorted(e[2].items())) for e in rec.events if e[0] == 'emit']
    return {'rows': rows, 'final': final, 'procs': comp, 'front': front, 'error': err}


def differential(rep, tier, seed):
    pr.preload()
    rng = random.Random(seed + 13)
    n = 12 if tier == 'quick' else 120
    hung = 0
    for i in range(n):
        if hung >= 2:
            break
        sc = er.random_scenario(rng, nprocs=rng.randint(2, 3), state_dependent=(i % 2 == 0))
        sc['emit_step'] = 1
        pids = list(sc['procs'])
        subsets = [tuple(pids)] if tier == 'quick' else [tuple(pids), tuple(pids[:1])]
        serial = run_rows(sc, ())
        for sub in subsets:
            rep.evaluations += 1
            try:
                with pr.Watch(90):
                    par = run_rows(sc, sub)
            except pr.Hang:
                hung += 1
                rep.violation({'kind': 'differential', 'differs': ['hang']},
                              'running %s in parallel hangs (90 s); scenario %s'
                              % (list(sub), json.dumps(sc)), {'scenario': sc, 'parallel': list(sub)})
                continue
            if par != serial:
                keys = [k for k in serial if serial[k] != par[k]]
                rep.violation(
                    {'kind': 'differential', 'differs': keys,
                     'scenario': json.dumps(sc, sort_keys=True)},
                    'running %s in parallel changes %s: serial %s parallel %s; scenario %s'
                    % (list(sub), keys, {k: serial[k] for k in keys}, {k: par[k] for k in keys},
                       json.dumps(sc)), {'scenario': sc, 'parallel': list(sub)})
            rep.nontrivial.add('diff-%d-%s' % (i, ','.join(sub)))
    rep.notes['differential_scenarios'] = n
    # structural histories with every compartment process and step parallel
    from vv import store_run as sr, props_store
    m = 6 if tier == 'quick' else 60
    keys = ('tree', 'leaves', 'eprocs', 'esteps', 'eseq', 'deps', 'pubP', 'pubS', 'pubF',
            'pubT', 'hierP', 'hierS', 'hierF')
    for i in range(m):
        ini = rng.choice(props_store.INITIALS)
        ops = sr.random_history(rng, rng.randint(3, 6), props_store.model_of(ini),
                                names=['a', 'b', 'c'], tpls=('T1', 'T2', 'T3', 'T4'), max_comps=3)
        if any(o['op'] == 'addex' for o in ops):
            continue
        rep.evaluations += 1
        if hung >= 2:
            break
        try:
            with pr.Watch(120):
                ser, _ = sr.run_history(ops, initial=ini)
                par, _ = sr.run_history(ops, initial=ini, parallel=True)
        except pr.Hang:
            hung += 1
            rep.violation({'kind': 'differential-structural', 'what': 'hang',
                           'history': json.dumps(ops)},
                          'structural history hangs with parallel processes: %s from %s'
                          % (json.dumps(ops), json.dumps(ini)), {'initial': ini, 'ops': ops})
            continue
        except Exception as e:
            # (run_history records what update() raises; this is the constructor)
            rep.violation({'kind': 'differential-structural', 'what': 'raised',
                           'type': type(e).__name__},
                          'building the engine of a structural history raised %r when its '
                          'processes and steps are parallel (or serial): initial %s'
                          % (e, json.dumps(ini)), {'initial': ini, 'ops': ops})
            continue
        a = [(r.get('exc'), {k: r['obs'][k] for k in keys}) for r in ser if 'obs' in r]
        b = [(r.get('exc'), {k: r['obs'][k] for k in keys}) for r in par if 'obs' in r]
        if a != b:
            tick = next((j for j, (x, y) in enumerate(zip(a, b)) if x != y), min(len(a), len(b)))
            texts = [r.get('exc_text') for r in par if r.get('exc')]
            rep.violation({'kind': 'differential-structural',
                           'ops': [o['op'] for o in ops[:tick + 1]][-2:]},
                          'marking processes and steps parallel changes the structural history '
                          'at tick %d (%s): %s from %s' % (tick, texts, json.dumps(ops),
                                                           json.dumps(ini)),
                          {'initial': ini, 'ops': ops})
        rep.nontrivial.add('sdiff-' + json.dumps(ops))
    rep.notes['differential_structural_histories'] = m


def store_entry(rep):
    """The third way of building an engine - Engine(store=composite.generate_store()) -
    with a process marked parallel: same values as with the process serial, Engine.end()
    without error, no worker left."""
    import multiprocessing
    from vivarium.core.engine import Engine
    from vivarium.core.composer import Composite
    pr.preload()
    out = {}
    for parallel in (False, True):
        c = pr.comp('se', 1, parallel=parallel)
        comp = Composite({'processes': {'agents': {'se': c['processes']}},
                          'topology': {'agents': {'se': c['topology']}},
                          'state': {'agents': {'se': c['initial_state']}}})
        err, vals = None, []
        before = set(p.pid for p in multiprocessing.active_children())
        try:
            with pr.Watch(60), contextlib.redirect_stdout(io.StringIO()):
                eng = Engine(store=comp.generate_store(), display_info=False, emitter='null')
                for _ in range(2):
                    eng.update(1)
                    vals.append(pr.plain_values(eng))
                eng.end()
        except pr.Hang:
            err = 'hang'
        except Exception as e:
            err = '%s: %s' % (type(e).__name__, str(e)[:150])
        left = [p for p in multiprocessing.active_children() if p.pid not in before]
        for p in left:
            p.terminate()
            p.join(5)
        out[parallel] = (err, vals, len(left))
    rep.evaluations += 1
    rep.nontrivial.add('store-entry')
    if out[True] != out[False] or out[True][0] is not None or out[True][2]:
        rep.violation({'kind': 'store-entry'},
                      'Engine(store=generate_store()) with a process marked _parallel: '
                      '(error, values after each update, workers left) = %r; with the process '
                      'serial %r' % (out[True], out[False]), {})


def check(prop, tier, seed):
    rep = Report(prop, tier, seed)
    rep.rule = ('TLC: exhaustive model checking of Parallel.tla (2-3 workers, 4-5 commands) incl. '
                'liveness of end(); implementation: protocol scenarios (delete / divide / move of '
                'a subtree whose parallel process is idle or has an update in flight x operation '
                'tick x end() once / twice / never + garbage collection; an exception aborting '
                'an update; generation and later deletion) recorded through the hooks and '
                'validated by ParallelTrace.tla together with the observed sets of live OS '
                'workers; serial-vs-parallel differential runs of random scheduler scenarios; '
                'non-trivial = scenarios with a structural operation, an abort, or other than '
                'exactly one end()')
    rep.assumptions = ['OS-level behaviour is observed (is_alive of the worker), not modelled',
                       'a 60 s watchdog turns a hang into a "hang" record']
    with tlc.Scratch() as scratch:
        model_check(rep, tier, scratch)
        protocol(rep, tier, scratch)
    differential(rep, tier, seed)
    rep.guard(store_entry, rep, what='engine from a store')
    return rep.finish()


def replay(prop, path):
    with open(path) as f:
        data = json.load(f)
    rep = Report(prop, 'quick', 0)
    sc = data.get('replay', {}).get('scenario')
    if sc and 'comps' in sc:
        sc['comps'] = [tuple(c) for c in sc['comps']]
        sc['ops'] = {int(k): tuple(v) for k, v in sc['ops'].items()}
        recs, nm = pr.rename(pr.run_protocol(sc))
        with tlc.Scratch() as scratch:
            rej, res, diags = tlc.validate_traces([recs], scratch, module='ParallelTrace',
                                                  cfg='ParallelTrace.cfg', label='replay')
        for t, stuck in rej.items():
            rules = tlc.pick_failing_rules(diags.get(t, []))
            rep.violation({'kind': 'trace', 'rules': sorted(rules), 'op': op_kind(sc),
                           'first_comp_ts': sc['comps'][0][1], 'finish': sc['finish'],
                           'bomb': bool(sc.get('bomb'))},
                          'rejected at record %d: %s' % (stuck, sorted(rules)), {'scenario': sc})
    return rep.finish(write=False)
