"""Verdicts, replay files, known findings and evidence files."""
import hashlib
import json
import os
import sys
import time

ROOT = os.path.dirname(os.path.dirname(os.path.abspath(__file__)))
EVIDENCE_DIR = os.environ.get('VERIF_EVIDENCE_DIR') or os.path.join(ROOT, 'evidence')
REPLAY_DIR = os.environ.get('VERIF_REPLAY_DIR') or os.path.join(ROOT, 'replays')
KNOWN = os.path.join(ROOT, 'known_findings.jsonl')


def load_known():
    """Returns (findings, fixed) from known_findings.jsonl."""
    findings, fixed = [], []
    if not os.path.exists(KNOWN):
        return findings, fixed
    with open(KNOWN) as f:
        for line in f:
            line = line.strip()
            if not line or line.startswith('#'):
                continue
            if line.startswith('fixed:'):
                fixed.append(line)
                continue
            findings.append(json.loads(line))
    return findings, fixed


class Report:
    """Collects what one check run covered and found."""

    def __init__(self, prop, tier, seed, level='model_checking'):
        self.prop = prop
        self.tier = tier
        self.seed = seed
        self.level = level
        self.t0 = time.time()
        self.states = 0
        self.transitions = 0
        self.traces = 0
        self.evaluations = 0
        self.nontrivial = set()
        self.samples = []
        self.rule = ''
        self.exhaustive = False
        self.assumptions = []
        self.violations = []      # list of (signature, what, replay dict)
        self.known_hits = []
        self.notes = {}
        self.tlc_runs = []

    # ---- accumulation
    def add_tlc(self, name, res):
        self.states += res.distinct
        self.transitions += res.generated
        self.tlc_runs.append({'config': name, 'distinct': res.distinct,
                              'generated': res.generated, 'depth': res.depth,
                              'wall_s': round(res.wall, 2)})

    def add_sample(self, s, limit=3):
        if len(self.samples) < limit:
            self.samples.append(s)

    def violation(self, signature, what, replay):
        """signature: stable dict identifying the failing input/history."""
        self.violations.append((signature, what, replay))

    def guard(self, fn, *args, what='case', detail=None, **kw):
        """Evaluate one case of a table / one scenario.  The case functions are
        deterministic and call only the public API on inputs of the property's
        domain, and none of them raises on a tree where the property holds; an
        exception (the library raising, or returning something so far from the
        expected value that comparing it fails) is a violation for that case."""
        import traceback
        try:
            return fn(*args, **kw)
        except Exception as e:
            if type(e).__name__ == 'MachineryFailure':
                raise
            tb = traceback.extract_tb(e.__traceback__)
            where = '%s:%s' % (os.path.basename(tb[-1].filename), tb[-1].name) if tb else '?'
            self.violation({'kind': 'exception', 'what': what, 'type': type(e).__name__,
                            'where': where},
                           '%s %s: evaluating it raised %s: %s (in %s)'
                           % (self.prop, what, type(e).__name__, str(e)[:200], where),
                           {'detail': detail, 'traceback': ''.join(
                               traceback.format_exception(type(e), e, e.__traceback__))[-4000:]})
            return None

    # ---- output
    def finish(self, write=True):
        findings, _fixed = load_known()
        mine = [k for k in findings if k.get('property') == self.prop]
        unlisted = []
        for sig, what, replay in self.violations:
            hit = None
            for k in mine:
                if _matches(k.get('signature', {}), sig):
                    hit = k
                    break
            if hit is not None:
                self.known_hits.append((hit, what))
            else:
                unlisted.append((sig, what, replay))
        printed = set()
        for hit, what in self.known_hits:
            key = hit.get('id', json.dumps(hit.get('signature')))
            if key in printed:
                continue
            printed.add(key)
            print('KNOWN-FINDING: property=%s %s' % (self.prop, hit.get('what', what)))
        rc = 0
        if unlisted:
            os.makedirs(REPLAY_DIR, exist_ok=True)
            seen = set()
            for sig, what, replay in unlisted[:20]:
                h = hashlib.sha1(json.dumps(sig, sort_keys=True, default=str).encode()).hexdigest()[:12]
                if h in seen:
                    continue
                seen.add(h)
                path = os.path.join(REPLAY_DIR, '%s_%s.json' % (self.prop, h))
                with open(path, 'w') as f:
                    json.dump({'property': self.prop, 'what': what,
                               'signature': sig, 'replay': replay}, f,
                              indent=1, default=str)
                print('VIOLATION property=%s replay=%s' % (self.prop, path))
                print('  ' + what)
            rc = 1
        if write:
            self.write_evidence(len(unlisted))
        return rc

    def write_evidence(self, nviol):
        os.makedirs(EVIDENCE_DIR, exist_ok=True)
        cov = {
            'states': self.states,
            'transitions': self.transitions,
            'traces_validated_against_impl': self.traces,
            'samples': self.samples or ['(none)'],
            'evaluations': self.evaluations,
            'distinct_nontrivial': len(self.nontrivial),
            'rule': self.rule,
            'exhaustive': self.exhaustive,
            'tlc_runs': self.tlc_runs,
        }
        cov.update(self.notes)
        ev = {
            'property_id': self.prop,
            'tier': self.tier,
            'seed': self.seed,
            'level': self.level,
            'coverage': cov,
            'assumptions': self.assumptions,
            'wall_s': round(time.time() - self.t0, 2),
            'violations': nviol,
            'known_findings_hit': len(self.known_hits),
        }
        path = os.path.join(EVIDENCE_DIR, self.prop + '.json')
        with open(path, 'w') as f:
            json.dump(ev, f, indent=1, default=str)


def _matches(pattern, sig):
    """Every key of the recorded signature must be present and equal."""
    if not pattern:
        return False
    for k, v in pattern.items():
        if sig.get(k) != v:
            return False
    return True


def machinery_failure(prop, msg):
    print('MACHINERY-FAILURE property=%s %s' % (prop, msg))
    sys.stdout.flush()
    return 2
