"""Mutation campaign: how much of the anchored code do the checks bind?

Not a registered check - a tool for growing the checks.  For one property it
enumerates small syntactic changes (mutants) inside the functions the property
is anchored in, and runs the property's quick check against a scratch copy of
the repository carrying one mutant at a time (through VERIF_REPO, never in
/repo).  A mutant the check misses is then run through the repository's own
tests; what survives both is listed for triage: an equivalent mutant, a change
outside the property's domain, or a gap in the check to be closed.

  python -m vv.mutate list C02
  python -m vv.mutate run C02 [--jobs 5] [--limit N] [--only i,j,...]
  python -m vv.mutate show C02          (summary of mutation/C02.jsonl)

Results go to /verif/mutation/<prop>.jsonl (one line per mutant).
"""
import ast
import json
import os
import shutil
import subprocess
import sys
import tempfile
from concurrent.futures import ThreadPoolExecutor

ROOT = os.path.dirname(os.path.dirname(os.path.abspath(__file__)))
REPO = '/repo'
OUT = os.path.join(ROOT, 'mutation')

# property -> [(file, [qualified function names])]
E = 'vivarium/core/engine.py'
S = 'vivarium/core/store.py'
TARGETS = {
    'C01': [(E, ['Engine.run_for', 'Engine._send_updates', '_process_update', 'Engine._calculate_update', 'Engine._process_state',
                 'Engine._remove_deleted_processes', 'Engine.apply_update', 'Defer.get',
                 'invert_topology', '_invoke_process', 'empty_front'])],
    'C02': [(E, ['Engine.run_for', '_process_update', 'Engine._calculate_update', 'Engine._process_state', 'Engine._check_complete',
                 'Engine._next_time', 'Engine.update']),
            ('vivarium/core/process.py', ['Process.calculate_timestep',
                                          'Process.update_condition'])],
    'C03': [(E, ['Engine.run_for', 'Engine._next_time', 'Engine.update'])],
    'C04': [(E, ['Engine.run_for', 'Engine.run_steps', '_StepGraph.get_execution_layers',
                 '_process_update', 'Engine._calculate_update', 'Engine._process_state', 'Engine._calculate_update']),
            (S, ['view_values'])],
    'C05': [(E, ['_StepGraph.get_execution_layers', '_StepGraph.add', '_StepGraph.add_sequential',
                 '_StepGraph.remove', 'Engine.run_steps', 'Engine._calculate_update',
                 'Engine._send_updates', 'Engine._add_step_path',
                 'Engine._validate_steps_and_flow', 'Engine._find_step_paths',
                 'Engine._add_process_path'])],
    'C06': [(S, ['Store._topology_ports', 'Store._establish_path', 'Store.outer_path',
                 'Store.schema_topology', 'Store.build_topology_views',
                 'Store.connect', 'Store._update_topology', 'Store.topology_state', 'topology_path', 'insert_topology']),
            ('vivarium/library/topology.py', ['inverse_topology', 'normalize_path']),
            ('vivarium/library/dict_utils.py', ['deep_merge_multi_update'])],
    'C07': [(S, ['Store.schema_topology', 'Store.build_topology_views',
                 'Store._apply_subschema_path', 'Store._apply_subschemas', 'Store._apply_subschema', 'Store._update_subschema', 'view_values']),
            (E, ['Engine.run_steps', 'Engine._calculate_update', 'Engine._send_updates'])],
    'C08': [('vivarium/core/registry.py', ['update_merge', 'update_set', 'update_null',
                                           'update_accumulate', 'update_nonnegative_accumulate',
                                           'update_dictionary']),
            (S, ['Store._get_updater', 'Store.apply_update', 'Store._reduce'])],
    'C09': [(S, ['Store.apply_update', 'Store.add', 'Store.move', 'Store.add_node',
                 'Store.insert', 'Store.generate', 'Store.divide', 'Store.delete',
                 'Store._delete_path'])],
    'C10': [(E, ['Engine.apply_update', 'Engine._delete_path', 'Engine._remove_deleted_processes',
                 'Engine._add_process_path', 'Engine._add_step_path', '_StepGraph.remove',
                 'Engine._find_process_paths', 'Engine._find_step_paths']),
            (S, ['Store.move', 'Store.insert', 'Store.divide', 'Store.delete'])],
    'C11': [('vivarium/core/registry.py', ['divide_set', 'divide_split', 'divide_binomial',
                                           'divide_split_dict', 'divide_set_value',
                                           'divide_null', 'assert_no_divide', 'divide_zero']),
            (S, ['Store.divide_value', 'Store._get_divider', 'Store.divide'])],
    'C12': [(E, ['Engine._emit_configuration', 'Engine._emit_store_data', 'Engine.run_for',
                 'Engine.__init__']),
            (S, ['Store.emit_data', 'Store.set_emit_value', 'Store.set_emit_values']),
            ('vivarium/core/emitter.py', ['RAMEmitter.emit'])],
    'C13': [('vivarium/core/process.py', ['ParallelProcess.send_command',
                                          'ParallelProcess.get_command_result',
                                          'ParallelProcess.end',
                                          'ParallelProcess.__del__', '_handle_parallel_process',
                                          'ParallelProcess.__init__']),
            (E, ['Engine._parallelize_processes', 'Defer.get', 'Engine.end',
                 '_invoke_process', 'Engine.apply_update', 'Engine._delete_path']),
            (S, ['Store.recursive_end_process', 'Store._delete_path', 'Store.delete'])],
    'C14': [('vivarium/core/serialize.py', None)],
    'C15': [(S, ['generate_state', 'Store.generate', 'Store._apply_config', 'Store.set_value',
                 'Store.generate_value', 'Store.apply_defaults', 'Store._check_default']),
            ('vivarium/core/composer.py', ['_get_composite_state', 'Composite.initial_state',
                                           'Composite.default_state']),
            ('vivarium/core/process.py', ['Process.default_state', 'Process.initial_state'])],
    'C16': [('vivarium/core/composer.py', ['Composer.generate', 'Composite.__init__',
                                           'Composite.merge', 'MetaComposer.generate_processes',
                                           'MetaComposer.generate_steps',
                                           'MetaComposer.generate_topology',
                                           'MetaComposer.generate_flow',
                                           'Composite.generate_store',
                                           'get_composite_from_store', 'MetaComposer._generate', 'MetaComposer.add_composer']),
            ('vivarium/core/process.py', ['Process.generate', 'assoc_in', '_override_schemas']),
            (E, ['Engine._make_store'])],
    'C17': [('vivarium/library/topology.py', ['normalize_path', 'get_in', 'delete_in',
                                              'assoc_path', 'update_in', 'paths_to_dict',
                                              'dict_to_paths', 'convert_path_style']),
            (S, ['Store.get_path', 'Store.path_for', 'Store.path_to', 'Store.top',
                 'Store._establish_path', 'hierarchy_depth', 'convert_path']),
            ('vivarium/core/process.py', ['assoc_in'])],
    'C18': [('vivarium/core/emitter.py', ['timeseries_from_data', 'path_timeseries_from_data',
                                          'path_timeseries_from_embedded_timeseries',
                                          'RAMEmitter.get_data', 'Emitter.get_timeseries',
                                          'Emitter.get_path_timeseries',
                                          'Emitter.get_data_unitless',
                                          'data_from_database', 'get_local_client']),
            ('vivarium/library/dict_utils.py', ['value_in_embedded_dict', 'make_path_dict',
                                                'get_value_from_path'])],
    'C19': [('vivarium/processes/timeline.py', None),
            ('vivarium/core/composition.py', ['add_timeline'])],
}

CMP = {ast.Lt: '<=', ast.LtE: '<', ast.Gt: '>=', ast.GtE: '>', ast.Eq: '!=', ast.NotEq: '==',
       ast.Is: 'is not', ast.IsNot: 'is', ast.In: 'not in', ast.NotIn: 'in'}
BIN = {ast.Add: '-', ast.Sub: '+', ast.Mult: '/', ast.Div: '*'}


def functions(tree, names):
    """(qualified name, node) of the functions to mutate."""
    out = []

    def walk(node, prefix):
        for ch in ast.iter_child_nodes(node):
            if isinstance(ch, (ast.FunctionDef, ast.AsyncFunctionDef)):
                q = prefix + ch.name
                if names is None or q in names:
                    if not ch.name.startswith('test_'):
                        out.append((q, ch))
                else:
                    walk(ch, q + '.')
            elif isinstance(ch, ast.ClassDef):
                if not ch.name.startswith('Test'):
                    walk(ch, prefix + ch.name + '.')
    walk(tree, '')
    return out


def seg(src_lines, node):
    return ast.get_source_segment('\n'.join(src_lines), node)


def offsets(lines):
    off, tot = [], 0
    for ln in lines:
        off.append(tot)
        tot += len(ln) + 1
    return off


def pos(off, lineno, col, line_text):
    # col offsets are in utf8 bytes
    prefix = line_text.encode('utf8')[:col].decode('utf8')
    return off[lineno - 1] + len(prefix)


def mutants_of(path, names):
    """Yield dicts {file, func, line, kind, start, end, new, old}."""
    with open(os.path.join(REPO, path)) as f:
        src = f.read()
    lines = src.split('\n')
    off = offsets(lines)
    tree = ast.parse(src)
    out = []

    def span(node):
        return (pos(off, node.lineno, node.col_offset, lines[node.lineno - 1]),
                pos(off, node.end_lineno, node.end_col_offset, lines[node.end_lineno - 1]))

    def add(func, node, kind, start, end, new):
        out.append({'file': path, 'func': func, 'line': node.lineno, 'kind': kind,
                    'start': start, 'end': end, 'new': new, 'old': src[start:end]})

    for q, fn in functions(tree, names):
        doc = ast.get_docstring(fn)
        for node in ast.walk(fn):
            if isinstance(node, ast.Compare) and len(node.ops) == 1:
                op = node.ops[0]
                if type(op) in CMP:
                    a, b = node.left, node.comparators[0]
                    s = span(a)[1]
                    e = span(b)[0]
                    add(q, node, 'cmp', s, e, ' %s ' % CMP[type(op)])
            elif isinstance(node, ast.BoolOp):
                for a, b in zip(node.values, node.values[1:]):
                    s, e = span(a)[1], span(b)[0]
                    old = src[s:e]
                    if old.count('(') != old.count(')'):
                        continue
                    word = 'or' if isinstance(node.op, ast.And) else 'and'
                    neww = old.replace('and' if word == 'or' else 'or', word, 1)
                    if neww != old:
                        add(q, node, 'bool', s, e, neww)
            elif isinstance(node, ast.BinOp) and type(node.op) in BIN:
                if isinstance(node.left, ast.Constant) and isinstance(node.left.value, str):
                    continue
                s, e = span(node.left)[1], span(node.right)[0]
                old = src[s:e]
                if old.count('(') != old.count(')') or '%' in old:
                    continue
                sym = {ast.Add: '+', ast.Sub: '-', ast.Mult: '*', ast.Div: '/'}[type(node.op)]
                if old.strip() != sym:
                    continue
                add(q, node, 'arith', s, e, old.replace(sym, BIN[type(node.op)], 1))
            elif isinstance(node, (ast.If, ast.While, ast.IfExp)):
                s, e = span(node.test)
                add(q, node.test, 'negate', s, e, 'not (%s)' % src[s:e])
                if isinstance(node, ast.If):
                    add(q, node.test, 'cond-false', s, e, 'False')
                    add(q, node.test, 'cond-true', s, e, 'True')
            elif isinstance(node, ast.Call) and isinstance(node.func, ast.Name) \
                    and node.func.id in ('min', 'max'):
                s, e = span(node.func)
                add(q, node, 'minmax', s, e, 'max' if node.func.id == 'min' else 'min')
            elif isinstance(node, (ast.Break, ast.Continue)):
                s, e = span(node)
                add(q, node, 'break', s, e,
                    'continue' if isinstance(node, ast.Break) else 'break')
            elif isinstance(node, ast.Constant) and isinstance(node.value, bool):
                s, e = span(node)
                add(q, node, 'const', s, e, str(not node.value))
            elif isinstance(node, ast.Constant) and isinstance(node.value, int) \
                    and not isinstance(node.value, bool):
                s, e = span(node)
                add(q, node, 'const', s, e, str(node.value + 1))
            elif isinstance(node, ast.UnaryOp) and isinstance(node.op, ast.Not):
                s, e = span(node)
                so, eo = span(node.operand)
                add(q, node, 'unnot', s, e, '(%s)' % src[so:eo])
            # statement deletion
            if isinstance(node, (ast.Expr, ast.Assign, ast.AugAssign, ast.AnnAssign,
                                 ast.Return, ast.Delete, ast.Raise)):
                if isinstance(node, ast.Expr) and isinstance(node.value, ast.Constant) \
                        and isinstance(node.value.value, str):
                    continue   # docstring
                if isinstance(node, ast.Raise):
                    continue
                s, e = span(node)
                if isinstance(node, ast.Return):
                    if node.value is None:
                        continue
                    add(q, node, 'del-return', s, e, 'return None')
                elif isinstance(node, ast.AnnAssign) and node.value is None:
                    continue
                else:
                    add(q, node, 'del-stmt', s, e, 'pass')
        _ = doc
    return src, out


def enumerate_mutants(prop):
    res = []
    for path, names in TARGETS[prop]:
        _src, ms = mutants_of(path, names)
        res.extend(ms)
    seen, uniq = set(), []
    for m in res:
        k = (m['file'], m['start'], m['end'], m['new'])
        if k not in seen:
            seen.add(k)
            uniq.append(m)
    seen_txt = {}
    for i, m in enumerate(uniq):
        m['id'] = i
        t = (m['file'], m['func'], m['kind'], m['old'], m['new'])
        m['ord'] = seen_txt.get(t, 0)
        seen_txt[t] = m['ord'] + 1
    return uniq


def stable_key(r, counter=None):
    """Identifies a mutant independently of line numbers and offsets (the
    repository changes under a long campaign)."""
    t = (r['file'], r['func'], r['kind'], r['old'], r['new'])
    if 'ord' in r:
        return t + (r['ord'],)
    n = counter.get(t, 0)
    counter[t] = n + 1
    return t + (n,)


def make_copy(workdir):
    if os.path.exists(workdir):
        shutil.rmtree(workdir)
    os.makedirs(workdir)
    shutil.copytree(os.path.join(REPO, 'vivarium'), os.path.join(workdir, 'vivarium'),
                    ignore=shutil.ignore_patterns('__pycache__'))
    for f in ('pytest.ini', 'setup.py', 'README.md'):
        if os.path.exists(os.path.join(REPO, f)):
            shutil.copy(os.path.join(REPO, f), workdir)


def apply(workdir, m):
    p = os.path.join(workdir, m['file'])
    with open(os.path.join(REPO, m['file'])) as f:
        src = f.read()
    assert src[m['start']:m['end']] == m['old']
    new = src[:m['start']] + m['new'] + src[m['end']:]
    try:
        compile(new, p, 'exec')
    except SyntaxError:
        return False
    with open(p, 'w') as f:
        f.write(new)
    return True


def restore(workdir, m):
    shutil.copy(os.path.join(REPO, m['file']), os.path.join(workdir, m['file']))


def run_check(prop, workdir, scratch, timeout=420):
    env = dict(os.environ, VERIF_REPO=workdir, VERIF_EVIDENCE_DIR=scratch,
               VERIF_REPLAY_DIR=scratch, VERIF_TLC_CACHE=os.path.join(OUT, '.tlc_cache'),
               PYTHONDONTWRITEBYTECODE='1')
    try:
        p = subprocess.run([os.path.join(ROOT, 'check'), prop, '--tier', 'quick'], env=env,
                           stdout=subprocess.PIPE, stderr=subprocess.STDOUT, timeout=timeout)
        out = p.stdout.decode('utf8', 'replace')
        rc = p.returncode
    except subprocess.TimeoutExpired as e:
        out = (e.stdout or b'').decode('utf8', 'replace')
        rc = -9
    lines = [l for l in out.splitlines() if 'WARNING conda' not in l]
    first = ''
    for i, l in enumerate(lines):
        if l.startswith('VIOLATION'):
            first = (lines[i + 1] if i + 1 < len(lines) else '')[:300]
            break
    if rc == 2:
        first = '\n'.join(lines[-6:])[:600]
    return rc, sum(1 for l in lines if l.startswith('VIOLATION')), first


def run_tests(workdir, timeout=1500):
    env = dict(os.environ, PYTHONDONTWRITEBYTECODE='1')
    env.pop('VIVARIUM_CORE_VERIF', None)
    try:
        p = subprocess.run(['/venv/bin/python', '-m', 'pytest', '-q', '-p', 'no:cacheprovider',
                            '--timeout=600', '-x', '--deselect',
                            'vivarium/experiments/large_experiment.py',
                            '--ignore=vivarium/experiments/large_experiment.py', 'vivarium'],
                           cwd=workdir, env=env, stdout=subprocess.PIPE,
                           stderr=subprocess.STDOUT, timeout=timeout)
        out = p.stdout.decode('utf8', 'replace')
        tail = [l for l in out.splitlines() if 'conda' not in l][-3:]
        return p.returncode == 0, ' | '.join(tail)[-300:]
    except subprocess.TimeoutExpired:
        return False, 'timeout (hang)'


NOTESTS = [False]


def work(prop, m, slot):
    workdir = '/var/tmp/mut_%s_%d_%d' % (prop, os.getpid(), slot)
    scratch = workdir + '_ev'
    os.makedirs(scratch, exist_ok=True)
    if not os.path.exists(os.path.join(workdir, 'vivarium')):
        make_copy(workdir)
    rec = dict(m)
    try:
        if not apply(workdir, m):
            rec['status'] = 'syntax'
            return rec
        rc, nv, first = run_check(prop, workdir, scratch)
        rec.update({'check_rc': rc, 'violations': nv, 'first': first})
        if rc == 1:
            rec['status'] = 'detected'
        elif rc == 0 and NOTESTS[0]:
            rec['status'] = 'missed'       # (not run through the repository's tests)
        elif rc == 0:
            ok, tail = run_tests(workdir)
            rec['tests_pass'] = ok
            rec['tests_tail'] = tail
            rec['status'] = 'survivor' if ok else 'killed-by-tests'
        else:
            rec['status'] = 'machinery' if rc == 2 else 'timeout'
    finally:
        restore(workdir, m)
        for f in os.listdir(scratch):
            try:
                os.remove(os.path.join(scratch, f))
            except OSError:
                pass
    return rec


def main():
    if sys.argv[1] == 'union':
        rows = union_report(sys.argv[2:])
        count = {}
        for verdict, key, st in rows:
            count[verdict] = count.get(verdict, 0) + 1
        print(count)
        for verdict, key, st in rows:
            if verdict in ('survivor', 'missed', 'machinery/timeout'):
                print(verdict, key[0].split('/')[-1], key[1], key[2], key[3],
                      repr(key[4][:50]), '->', repr(key[5][:50]), sorted(st))
        return
    cmd, prop = sys.argv[1], sys.argv[2]
    args = sys.argv[3:]
    if cmd == 'run':
        # work from a frozen copy of the repository: /repo may change (fix
        # commits) while a campaign is running
        global REPO
        base = '/var/tmp/mut_base_%s_%d' % (prop, os.getpid())
        make_copy(base)
        REPO = base
    ms = enumerate_mutants(prop)
    if cmd == 'list':
        for m in ms:
            print(m['id'], m['file'], m['func'], m['line'], m['kind'],
                  repr(m['old'][:50]), '->', repr(m['new'][:50]))
        print(len(ms), 'mutants')
        return
    path = os.path.join(OUT, prop + '.jsonl')
    if cmd == 'show':
        rows = [json.loads(l) for l in open(path)]
        by = {}
        for r in rows:
            by.setdefault(r['status'], []).append(r)
        print({k: len(v) for k, v in by.items()})
        for st in ('survivor', 'missed', 'machinery', 'timeout'):
            for r in by.get(st, []):
                print(st, r['id'], r['file'], r['func'], r['line'], r['kind'],
                      repr(r['old'][:60]), '->', repr(r['new'][:60]),
                      (r.get('first') or '')[:200] if st != 'survivor' else '')
        return
    jobs = 5
    only = None
    limit = None
    redo = None
    for i, a in enumerate(args):
        if a == '--jobs':
            jobs = int(args[i + 1])
        if a == '--limit':
            limit = int(args[i + 1])
        if a == '--only':
            only = {int(x) for x in args[i + 1].split(',')}
        if a == '--redo':
            redo = set(args[i + 1].split(','))
        if a == '--notests':
            NOTESTS[0] = True
    os.makedirs(OUT, exist_ok=True)
    done = {}
    if os.path.exists(path) and only is None:
        cnt = {}
        for l in open(path):
            r = json.loads(l)
            done[stable_key(r, cnt)] = r
    todo = [m for m in ms if (only is None or m['id'] in only)
            and (only is not None or stable_key(m) not in done)]
    if redo:
        todo = [m for m in ms
                if done.get(stable_key(m), {}).get('status') in redo]
        keep = [r for k, r in done.items() if r.get('status') not in redo]
        with open(path, 'w') as f:
            for r in keep:
                f.write(json.dumps(r) + '\n')
    if limit:
        todo = todo[:limit]
    print('%d mutants, %d to run' % (len(ms), len(todo)), flush=True)
    import queue
    slots = queue.Queue()
    for i in range(jobs):
        slots.put(i)

    def job(m):
        s = slots.get()
        try:
            return work(prop, m, s)
        finally:
            slots.put(s)
    with ThreadPoolExecutor(jobs) as ex, open(path, 'a') as f:
        for rec in ex.map(job, todo):
            if only is None:
                f.write(json.dumps(rec) + '\n')
                f.flush()
            print(rec['id'], rec['status'], rec['func'], rec['line'], rec['kind'],
                  repr(rec['old'][:40]), '->', repr(rec['new'][:40]),
                  (rec.get('first') or '')[:120] if rec['status'] != 'detected' else '',
                  flush=True)
    for i in range(jobs):
        for d in ('/var/tmp/mut_%s_%d_%d' % (prop, os.getpid(), i), '/var/tmp/mut_%s_%d_%d_ev' % (prop, os.getpid(), i)):
            shutil.rmtree(d, ignore_errors=True)
    shutil.rmtree('/var/tmp/mut_base_%s_%d' % (prop, os.getpid()), ignore_errors=True)




def union_report(props):
    """Mutants of shared code are run once per property that targets it; a
    mutant counts as detected when the check of any property reports it."""
    seen = {}
    for prop in props:
        path = os.path.join(OUT, prop + '.jsonl')
        if not os.path.exists(path):
            continue
        for l in open(path):
            r = json.loads(l)
            key = (r['file'], r['func'], r['line'], r['kind'], r['old'], r['new'])
            seen.setdefault(key, {})[prop] = r['status']
    rows = []
    for key, st in sorted(seen.items()):
        vals = set(st.values())
        if 'detected' in vals:
            verdict = 'detected'
        elif 'killed-by-tests' in vals:
            verdict = 'killed-by-tests'
        elif 'missed' in vals and 'survivor' not in vals:
            verdict = 'missed'
        elif vals & {'machinery', 'timeout'}:
            verdict = 'machinery/timeout'
        else:
            verdict = 'survivor'
        rows.append((verdict, key, st))
    return rows


if __name__ == '__main__':
    main()
