"""Prints the markdown table of DESIGN.md section 10 from seeded/*/meta.json."""
import glob
import json
import os
import re

ROOT = os.path.dirname(os.path.dirname(os.path.abspath(__file__)))


def main():
    print('| seeded change | breaks | detected by (quick tier) | rule / first message |')
    print('|---|---|---|---|')
    for f in sorted(glob.glob(os.path.join(ROOT, 'seeded', '*', 'meta.json'))):
        d = json.load(open(f))
        name = d.get('name') or os.path.basename(os.path.dirname(f))
        det = d.get('detected_by') or []
        first = ''
        for c in det:
            first = (d.get('checks', {}).get(c, {}) or {}).get('first', '')
            if first:
                break
        m = re.search(r"rules (\[[^\]]*\])", first)
        msg = m.group(1) if m else first[:70].replace('|', '/')
        print('| `%s` | %s | %s | %s |' % (
            name, d.get('breaks_property', '?'),
            ', '.join('`./check %s`' % c for c in det) or '**not detected**', msg))


if __name__ == '__main__':
    main()
