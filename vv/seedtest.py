"""Confirm a seeded change and run checks against it.

usage: python -m vv.seedtest <seed-dir> <name> <property> <check-id>[,<check-id>...] [--suite]

<seed-dir> holds patch.diff, demo.py (and notes.txt). The change is confirmed in a scratch
worktree of /repo outside /repo and /verif (demo passes without, fails with; optionally
the repository's test-suite still passes), then applied to /repo itself, the quick checks
are run, and it is undone again. Results go to /verif/seeded/<name>/meta.json."""
import json
import os
import shutil
import subprocess
import sys
import tempfile

ROOT = os.path.dirname(os.path.dirname(os.path.abspath(__file__)))


def sh(cmd, cwd=None, timeout=3600, env=None):
    p = subprocess.run(cmd, shell=True, cwd=cwd, stdout=subprocess.PIPE, stderr=subprocess.STDOUT,
                       timeout=timeout, env=env)
    return p.returncode, p.stdout.decode('utf-8', 'replace')


def main():
    seed_dir, name, prop, checks = sys.argv[1:5]
    suite = '--suite' in sys.argv
    tier = 'thorough' if '--thorough' in sys.argv else 'quick'
    out_dir = os.path.join(ROOT, 'seeded', name)
    os.makedirs(out_dir, exist_ok=True)
    for fn in ('patch.diff', 'demo.py', 'notes.txt'):
        if os.path.exists(os.path.join(seed_dir, fn)) and os.path.abspath(seed_dir) != out_dir:
            shutil.copy(os.path.join(seed_dir, fn), os.path.join(out_dir, fn))
    patch = os.path.join(out_dir, 'patch.diff')
    demo = os.path.join(out_dir, 'demo.py')
    meta = {'name': name, 'breaks_property': prop, 'ran': []}
    wt = tempfile.mkdtemp(prefix='seedwt_')
    os.rmdir(wt)
    env = dict(os.environ)
    env.pop('VIVARIUM_CORE_VERIF', None)
    env['PYTHONPATH'] = wt  # demonstrations import the library of the scratch worktree
    try:
        rc, out = sh('git -C /repo worktree add -q %s HEAD' % wt)
        assert rc == 0, out
        rc0, out0 = sh('timeout 300 /venv/bin/python %s' % demo, cwd=wt, env=env)
        meta['demo_without_change_exit'] = rc0
        rc, out = sh('git apply %s' % patch, cwd=wt)
        assert rc == 0, 'patch does not apply: ' + out
        rc1, out1 = sh('timeout 300 /venv/bin/python %s' % demo, cwd=wt, env=env)
        meta['demo_with_change_exit'] = rc1
        meta['demo_with_change_output'] = out1[-600:]
        meta['ran'].append('demo.py in a scratch worktree of /repo: exit %d without, %d with the change' % (rc0, rc1))
        if suite:
            rc, out = sh('timeout 1500 /venv/bin/python -m pytest -q -p no:cacheprovider '
                         '--timeout=900 --continue-on-collection-errors 2>&1 | tail -3', cwd=wt, env=env)
            meta['suite_tail'] = out[-300:]
            meta['ran'].append('repository test-suite in the scratch worktree with the change')
        # run the checks against the changed tree (the scratch worktree, through
        # VERIF_REPO; with --inplace against /repo itself, undone afterwards)
        results = {}
        inplace = '--inplace' in sys.argv
        cenv = dict(os.environ)
        scratch_out = tempfile.mkdtemp(prefix='seedout_')
        cenv['VERIF_EVIDENCE_DIR'] = os.path.join(scratch_out, 'evidence')
        cenv['VERIF_REPLAY_DIR'] = os.path.join(scratch_out, 'replays')
        if inplace:
            rc, out = sh('git -C /repo status --porcelain')
            assert out.strip() == '', '/repo is not clean: ' + out
            rc, out = sh('git -C /repo apply %s' % patch)
            assert rc == 0, out
        else:
            cenv['VERIF_REPO'] = wt
        try:
            for cid in checks.split(','):
                rc, out = sh('timeout 3000 ./check %s --tier %s' % (cid, tier), cwd=ROOT, env=cenv)
                viol = [l for l in out.splitlines() if l.startswith('VIOLATION')]
                first = ''
                lines = out.splitlines()
                for i, l in enumerate(lines):
                    if l.startswith('VIOLATION') and i + 1 < len(lines):
                        first = lines[i + 1].strip()[:400]
                        break
                if rc == 2:
                    first = out[-600:]
                results[cid] = {'exit': rc, 'violations': len(viol), 'first': first}
                meta['ran'].append('./check %s --tier %s against the changed tree (%s): exit %d, %d VIOLATION lines'
                                   % (cid, tier, '/repo with the patch applied' if inplace else
                                      'scratch worktree via VERIF_REPO', rc, len(viol)))
        finally:
            if inplace:
                sh('git -C /repo checkout -- .')
            shutil.rmtree(scratch_out, ignore_errors=True)
    finally:
        sh('git -C /repo worktree remove --force %s' % wt)
        shutil.rmtree(wt, ignore_errors=True)
    meta['checks'] = results
    meta['detected_by'] = sorted(c for c, r in results.items() if r['exit'] == 1)
    notes = os.path.join(out_dir, 'notes.txt')
    if os.path.exists(notes):
        meta['needs_to_manifest'] = open(notes).read()[:1500]
    with open(os.path.join(out_dir, 'meta.json'), 'w') as f:
        json.dump(meta, f, indent=1)
    print(json.dumps({k: meta[k] for k in ('demo_without_change_exit', 'demo_with_change_exit',
                                           'detected_by', 'checks')}, indent=1))
    if suite:
        print(meta.get('suite_tail'))


if __name__ == '__main__':
    main()
