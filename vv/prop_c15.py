"""C15: initial values and defaults. InitState.tla (on Topology.tla) says, for
every case and every subset of nodes named in the initial state, which value
each declared node must hold, and which pairs of declarations of one variable
are incompatible; every case is built through Engine(...), generate_state and
Composite.generate_store, and Composite.initial_state()/default_state() are
compared with the resolution function."""
import copy
import json

from vv import tlc, table, topo_cases as tc
from vv.verdict import Report

import vivarium  # noqa
from vivarium.core.engine import Engine
from vivarium.core.store import generate_state
from vivarium.core.composer import Composite
from vivarium.core.process import Process
from vivarium.library.units import units

LAWS = ['LawTotal', 'LawEveryNodeBuilt', 'LawExplicitWins', 'LawMergeSymmetric']
GLOB_DEFAULT = 55


class InitProbe(tc.TopoProbe):
    """TopoProbe that also reports its own initial state."""
    defaults = dict(tc.TopoProbe.defaults, own_initial={})

    def initial_state(self, config=None):
        # the stored dictionary itself (a process may well keep it): nobody
        # else may write into it
        return self.parameters['own_initial']


def prepare(case, given):
    b = tc.build(case, given=given, defaults_distinct=True, extra='noglob')
    # glob sub-variables share one schema, hence one default
    globs = {p['name'] for p in case['ports'] if p['kind'] in ('glob', 'glob2')}
    for x in b.variables:
        if x['port'] in globs:
            b.default[tuple(x['node'])] = GLOB_DEFAULT
    probe = tc.flatten_first(b.processes) if hasattr(tc, 'flatten_first') else None
    return b, globs


def get_probe(b):
    cur = b.processes
    for k in list(b.case['loc']) + ['proc']:
        cur = cur[k]
    return cur


def set_probe(b, probe):
    cur = b.processes
    for k in list(b.case['loc']):
        cur = cur[k]
    cur['proc'] = probe


def check_build(rep, case, build, entry='engine'):
    rep.evaluations += 1
    given = {tuple(n) for n in tc.seq(build['given'])}
    b, globs = prepare(case, given)
    old = get_probe(b)
    schema = old.parameters['schema']
    for name in globs:
        sub = schema[name]['*']
        if 'pool' in sub and '*' in sub['pool']:
            sub = sub['pool']['*']
        for v in sub:
            sub[v]['_default'] = GLOB_DEFAULT
        # a second sub-variable that no initial state ever names: every child
        # of the glob store must hold its default
        sub['zz'] = {'_default': 77, '_emit': True}
    # the process's own initial_state(): the initial value of every node, per variable
    own = {}
    for x in b.variables:
        val = b.initial[tuple(x['node'])]
        if x['v']:
            tc.nested_set(own, [x['port']] + list(x['v']), val)
        else:
            own[x['port']] = val
    probe = InitProbe({'schema': schema, 'update': old.parameters['update'],
                       'log': b.log, 'own_initial': own})
    own_before = copy.deepcopy(own)
    set_probe(b, probe)
    sig = {'kind': 'case', 'case': tc.case_id(case), 'given': sorted(map(list, given)),
           'entry': entry}
    try:
        if entry == 'engine':
            state = Engine(processes=b.processes, topology=b.topology,
                           initial_state=copy.deepcopy(b.initial_state),
                           display_info=False, emitter='null').state
        elif entry == 'generate_state':
            state = generate_state(b.processes, b.topology, copy.deepcopy(b.initial_state))
        elif entry == 'engine_store':
            # the third entry point: a store built without any state, the state
            # handed to the engine
            store = generate_state(b.processes, b.topology, {})
            state = Engine(store=store, initial_state=copy.deepcopy(b.initial_state),
                           display_info=False, emitter='null').state
        else:
            # the composite's own state names the given nodes with values that
            # differ from what the process itself would give them
            cstate = copy.deepcopy(b.initial_state)
            for n in given:
                tc.nested_set(cstate, list(n), b.initial[tuple(n)] + 5000)
            comp = Composite({'processes': b.processes, 'topology': b.topology,
                              'state': cstate})
            state = None
    except Exception as e:
        rep.violation(sig, 'C15 construction raised %r; case %s given %s'
                      % (e, tc.case_id(case), sorted(given)), {'case': case, 'build': build})
        return
    exp = {}
    for n, tag in build['vals']:
        n = tuple(n)
        exp[n] = b.initial[n] if tag == 'I' else b.default[n]
    if state is not None:
        got = tc.flatten(state.get_value())
        bad = {str(n): (got.get(n, 'MISSING'), v) for n, v in exp.items() if got.get(n, 'MISSING') != v}
        for x in b.variables:
            port = next(p for p in case['ports'] if p['name'] == x['port'])
            if port['kind'] in ('glob', 'glob2') and port['t'] == 'path':
                zz = tuple(x['node'][:-1]) + ('zz',)
                if got.get(zz, 'MISSING') != 77:
                    bad[str(zz)] = (got.get(zz, 'MISSING'), 77)
        if bad:
            rep.violation(sig, 'C15 (%s) nodes hold (got, expected) %s; case %s given %s'
                          % (entry, bad, tc.case_id(case), sorted(given)),
                          {'case': case, 'build': build})
        return
    # Composite: initial_state() places the process's own values at R(v),
    # explicit state wins; no multi-update wrappers; default_state() places defaults
    ist = comp.initial_state()
    flat = tc.flatten(ist)
    if any('_multi_update' in k for k in flat):
        rep.violation(dict(sig, what='multi_update'),
                      'C15 Composite.initial_state() contains _multi_update wrappers: %r' % (ist,),
                      {'case': case})
        return
    gset = {tuple(n) for n in given}
    want = {n: b.initial[n] + (5000 if n in gset else 0) for n in exp}
    bad = {str(n): flat.get(n, 'MISSING') for n in exp if flat.get(n, 'MISSING') != want[n]}
    if bad:
        rep.violation(dict(sig, what='initial_state'),
                      'C15 Composite.initial_state() gives %s, expected (the composite\'s state '
                      'where it names the node, the process\'s own initial value otherwise) %s; '
                      'case %s' % (bad, {str(n): want[n] for n in exp}, tc.case_id(case)),
                      {'case': case})
        return
    if exp:
        # a state handed in through the configuration wins over both
        first = sorted(exp)[0]
        cfg_state = {}
        tc.nested_set(cfg_state, list(first), 9000)
        flat2 = tc.flatten(comp.initial_state({'initial_state': cfg_state}))
        want2 = dict(want)
        want2[first] = 9000
        bad = {str(n): flat2.get(n, 'MISSING') for n in exp if flat2.get(n, 'MISSING') != want2[n]}
        if probe.parameters['own_initial'] != own_before:
            rep.violation(dict(sig, what='own-state-object'),
                          'C15 Composite.initial_state(config) wrote into the dictionary the '
                          'process returned from its own initial_state(): %r became %r; case %s'
                          % (own_before, probe.parameters['own_initial'], tc.case_id(case)),
                          {'case': case})
            return
        if bad:
            rep.violation(dict(sig, what='initial_state(config)'),
                          'C15 Composite.initial_state({initial_state: %r}) gives %s, expected %s; '
                          'case %s' % (cfg_state, bad, {str(n): want2[n] for n in exp},
                                       tc.case_id(case)), {'case': case})
            return
    if not globs:
        dflat = tc.flatten(comp.default_state())
        bad = {str(n): dflat.get(n, 'MISSING') for n in exp if dflat.get(n, 'MISSING') != b.default[n]}
        if bad:
            rep.violation(dict(sig, what='default_state'),
                          'C15 Composite.default_state() gives %s expected defaults %s; case %s'
                          % (bad, {str(n): b.default[n] for n in exp}, tc.case_id(case)),
                          {'case': case})
            return
    try:
        store = comp.generate_store()
    except Exception as e:
        rep.violation(dict(sig, what='generate_store'), 'C15 generate_store raised %r' % (e,),
                      {'case': case})
        return
    got = tc.flatten(store.get_value())
    bad = {str(n): got.get(n, 'MISSING') for n in exp if got.get(n, 'MISSING') != want[n]}
    if bad:
        rep.violation(dict(sig, what='generate_store'),
                      'C15 Composite.generate_store() nodes hold %s, expected %s'
                      % (bad, {str(n): want[n] for n in exp}), {'case': case})


class Decl(Process):
    defaults = {'schema': {}}

    def ports_schema(self):
        return {'p': {'x': dict(self.parameters['schema'])}}

    def next_update(self, timestep, states):
        return {}


# (one of the two values is falsy: a declared 0 is a declaration)
VAL = {'one': 0, 'two': 6}
UNI = {'one': units.g, 'two': units.mg}
from vivarium.core.serialize import SetSerializer, FunctionSerializer  # noqa: E402
SER = {'one': str(SetSerializer.python_type), 'two': str(FunctionSerializer.python_type)}


def decl_schema(d):
    s = {'_default': 1}
    if d['val'] != 'none':
        s['_value'] = VAL[d['val']]
    if d['units'] != 'none':
        s['_units'] = UNI[d['units']]
    if d['ser'] != 'none':
        s['_serializer'] = SER[d['ser']]
    return s


def check_pair(rep, pr):
    rep.evaluations += 1
    procs = {'A': Decl({'schema': decl_schema(pr['a'])}),
             'B': Decl({'schema': decl_schema(pr['b'])})}
    topo = {'A': {'p': ('st',)}, 'B': {'p': ('st',)}}
    sig = {'kind': 'pair', 'a': json.dumps(pr['a'], sort_keys=True),
           'b': json.dumps(pr['b'], sort_keys=True)}
    try:
        eng = Engine(processes=procs, topology=topo, display_info=False, emitter='null')
        raised = None
    except Exception as e:
        raised = e
    if pr['ok'] and raised is not None:
        rep.violation(sig, 'C15 compatible declarations %s / %s rejected: %r'
                      % (pr['a'], pr['b'], raised), {'pair': pr})
    elif not pr['ok'] and raised is None:
        rep.violation(sig, 'C15 incompatible declarations %s / %s accepted silently'
                      % (pr['a'], pr['b']), {'pair': pr})
    elif pr['ok']:
        node = eng.state.get_path(('st', 'x'))
        m = pr['merged']
        expv = VAL[m['val']] if m['val'] != 'none' else 1
        if node.value != expv or (m['units'] != 'none' and node.units != UNI[m['units']]):
            rep.violation(sig, 'C15 merged declaration holds value %r units %r, expected %r / %s'
                          % (node.value, node.units, expv, m['units']), {'pair': pr})
    if not pr['ok']:
        rep.nontrivial.add('pair' + json.dumps(pr, sort_keys=True))


def glob_child_wired_upward(rep):
    """A glob port whose '*' dictionary wires a sub-variable of every child
    upward to one shared store, next to a compartment that exists because it
    holds a process: the shared variable holds its default, whatever the order in
    which the processes are listed."""
    class Decl(Process):
        defaults = {'schema': {}}

        def ports_schema(self):
            return copy.deepcopy(self.parameters['schema'])

        def next_update(self, timestep, states):
            return {}
    want = {'agents': {'1': {'store': {'mass': 1}}}, 'shared': 0.5}
    for order in (('agents', 'environment'), ('environment', 'agents')):
        rep.evaluations += 1
        sig = {'kind': 'glob-child-wired-upward', 'order': '/'.join(order)}
        parts = {
            'environment': (Decl({'schema': {'agents': {'*': {'local': {'_default': 0.5}}}}}),
                            {'agents': {'_path': ('agents',),
                                        '*': {'local': ('..', '..', 'shared')}}}),
            'agents': ({'1': {'growth': Decl({'schema': {'port': {'mass': {'_default': 1}}}})}},
                       {'1': {'growth': {'port': ('store',)}}})}
        try:
            eng = Engine(processes={k: parts[k][0] for k in order},
                         topology={k: parts[k][1] for k in order},
                         initial_state={}, display_info=False, emitter='null')
            got = eng.state.get_value(condition=lambda n: not isinstance(n.value, Process))
        except Exception as e:
            rep.violation(sig, 'C15 a glob port wiring a sub-variable of its children upward to '
                          'a shared store (processes listed %s) raised %r' % (order, e), {})
            continue
        if got != want:
            rep.violation(sig, 'C15 a glob port wiring a sub-variable of its children upward to '
                          'a shared store (processes listed %s): the hierarchy holds %r, '
                          'expected %r' % (order, got, want), {})
    rep.nontrivial.add('glob-child-wired-upward')


def composite_state_and_initial_state(rep):
    """An engine built from a composite that carries a state, with an initial
    state given to the engine as well: every variable either of them names holds
    that value, the others their defaults."""
    class V(Process):
        def ports_schema(self):
            return {'p': {'a': {'_default': 1}, 'b': {'_default': 2}, 'c': {'_default': 3}}}

        def next_update(self, timestep, states):
            return {}
    for cstate, istate, want in (
            ({'s': {'a': 10}}, {'s': {'b': 20}}, {'a': 10, 'b': 20, 'c': 3}),
            ({'s': {'a': 10}}, {}, {'a': 10, 'b': 2, 'c': 3}),
            ({}, {'s': {'b': 20}}, {'a': 1, 'b': 20, 'c': 3})):
        rep.evaluations += 1
        sig = {'kind': 'composite-state+initial-state', 'composite': json.dumps(cstate),
               'initial': json.dumps(istate)}
        try:
            comp = Composite({'processes': {'v': V()}, 'topology': {'v': {'p': ('s',)}},
                              'state': copy.deepcopy(cstate)})
            eng = Engine(composite=comp, initial_state=copy.deepcopy(istate),
                         display_info=False, emitter='null')
            got = eng.state.get_value()['s']
        except Exception as e:
            rep.violation(sig, 'C15 Engine(composite with state %r, initial_state=%r) raised %r'
                          % (cstate, istate, e), {})
            continue
        if got != want:
            rep.violation(sig, 'C15 Engine(composite=<state %r>, initial_state=%r): the store s '
                          'holds %r, expected %r' % (cstate, istate, got, want), {})
    rep.nontrivial.add('composite-state+initial-state')


def run(rep, tier, scratch, only=None):
    consts = {'MaxPorts': 1 if tier == 'quick' else 2, 'Locs2': 'TRUE'}
    t = table.run_table(rep, 'InitState', 'InitState_' + tier,
                        table.cfg(consts, LAWS, post='ExportInit'), scratch)
    if not t:
        return
    cases = sorted(t['cases'], key=tc.case_id)
    stride = 1 if tier == 'quick' else 7
    if stride > 1:
        rep.notes['subsample'] = 'every %dth of %d two-port cases' % (stride, len(cases))
    n = 0
    for c in cases[::stride]:
        if only and tc.case_id(c) != only:
            continue
        for bld in c['builds']:
            for entry in ('engine', 'generate_state', 'engine_store'):
                check_build(rep, c, bld, entry)
            check_build(rep, c, bld, 'composite')
            if 0 < len(tc.seq(bld['given'])) < len(bld['vals']):
                rep.nontrivial.add(tc.case_id(c) + json.dumps(bld['given']))
        n += 1
    if tier == 'quick' and not only:
        # a sample of the two-port cases: those whose ports are wired to one
        # store, or one inside the store of the other (the composite state of one
        # process is then assembled from several ports at one place)
        t2 = table.run_table(rep, 'InitState', 'InitState_quick2',
                             table.cfg({'MaxPorts': 2, 'Locs2': 'FALSE'}, LAWS,
                                       post='ExportInit'), scratch)
        two = []
        for c in sorted((t2 or {}).get('cases', []), key=tc.case_id):
            if len(c['ports']) < 2:
                continue
            parents = [tuple(x['node'][:-1]) for x in c['vars']]
            byport = {}
            for x in c['vars']:
                byport.setdefault(x['port'], set()).add(tuple(x['node'][:-1]))
            ps = list(byport.values())
            if len(ps) == 2 and any(a == b or a[:len(b)] == b or b[:len(a)] == a
                                    for a in ps[0] for b in ps[1]):
                two.append(c)
        step = max(1, len(two) // 120)
        for c in two[::step]:
            for bld in c['builds'][::3]:
                check_build(rep, c, bld, 'composite')
                check_build(rep, c, bld, 'engine')
            n += 1
        rep.notes['two_port_sample'] = '%d of %d two-port cases sharing a store' % (
            len(two[::step]), len(two))
    for pr in t['pairs']:
        check_pair(rep, pr)
    if not only:
        rep.guard(composite_state_and_initial_state, rep,
                  what='composite state together with an engine initial state')
        rep.guard(glob_child_wired_upward, rep,
                  what='glob children wired upward to a shared store')
    rep.traces = n + len(t['pairs'])
    rep.add_sample({'case': cases[len(cases) // 2]['ports'],
                    'builds': cases[len(cases) // 2]['builds'][:2]})
    rep.add_sample({'pair': t['pairs'][len(t['pairs']) // 2]})
    rep.exhaustive = (tier == 'quick')


def check(prop, tier, seed):
    rep = Report(prop, tier, seed)
    rep.rule = ('every Topology.tla case x every subset of its nodes named in the initial '
                'state (the others must hold their declared defaults), through Engine, '
                'generate_state and Composite (initial_state/default_state/generate_store); '
                'every pair of declarations of one variable over value/units/serializer '
                'attributes; non-trivial = partial initial states and incompatible pairs')
    rep.assumptions = ['declarations of one variable with different _default values are '
                       'outside the domain (the property does not say which wins)',
                       'units and serializer attributes are not mixed on one variable']
    with tlc.Scratch() as scratch:
        run(rep, tier, scratch)
    return rep.finish()


def replay(prop, path):
    with open(path) as f:
        data = json.load(f)
    rep = Report(prop, 'quick', 0)
    rp = data.get('replay', {})
    if 'pair' in rp:
        check_pair(rep, rp['pair'])
    elif 'case' in rp:
        with tlc.Scratch() as scratch:
            run(rep, 'quick', scratch, only=tc.case_id(rp['case']))
    return rep.finish(write=False)
