"""C18: timeseries and query views. Timeseries.tla enumerates raw-data
histories (shapes x value atoms including the falsy ones and quantities x
times) and query sets, and exports what every view must contain; each case is
pushed through a real RAMEmitter and all its views are compared."""
import json

from vv import tlc, table
from vv.verdict import Report

import vivarium  # noqa
from vivarium.core.emitter import (
    RAMEmitter, timeseries_from_data, path_timeseries_from_data,
    path_timeseries_from_embedded_timeseries)
from vivarium.library.units import units
from pint import Quantity

LAWS = ['LawAligned', 'LawReadBack', 'LawQueryKeepsEverything']

ATOM = {
    'Zero': lambda: 0, 'False': lambda: False, 'EmptyStr': lambda: '',
    'EmptyList': lambda: [], 'One': lambda: 1, 'None': lambda: None,
    'QZero': lambda: 0 * units.g, 'QOne': lambda: 1 * units.g,
    'RZero': lambda: 0 * units.mm / units.m, 'ROne': lambda: 1 * units.mm / units.m,
}
UNIT_LABEL = {'qty': 'gram', 'ratio': 'millimeter / meter'}
MAG = {'QZero': 0, 'QOne': 1, 'RZero': 0, 'ROne': 1}


def seq(x):
    return [] if x == {} else x


def eq(a, b):
    """type-strict equality (False != 0, [] != '')"""
    if isinstance(a, Quantity) or isinstance(b, Quantity):
        return isinstance(a, Quantity) and isinstance(b, Quantity) \
            and a.units == b.units and a.magnitude == b.magnitude
    if isinstance(a, dict) and isinstance(b, dict):
        return a.keys() == b.keys() and all(eq(a[k], b[k]) for k in a)
    if isinstance(a, (list, tuple)) and isinstance(b, (list, tuple)):
        return len(a) == len(b) and all(eq(x, y) for x, y in zip(a, b))
    if isinstance(a, bool) != isinstance(b, bool):
        return False
    if isinstance(a, (int, float)) and isinstance(b, (int, float)):
        return a == b
    return type(a) == type(b) and a == b


def nested(pairs):
    d = {}
    for p, v in pairs:
        cur = d
        for k in p[:-1]:
            cur = cur.setdefault(k, {})
        cur[p[-1]] = v
    return d


def rename_case(c, variant):
    """The keys of Timeseries.tla are atoms; variant 1 instantiates them with the
    names the Timeline process uses: the store 'global' holding a variable
    'time' (below the top level, where 'time' is an ordinary name)."""
    if not variant:
        return c

    def ren(p):
        return [('global' if k == 'c' else 'time' if (k == 'b' and i > 0) else k)
                for i, k in enumerate(p)]
    c = json.loads(json.dumps(c))
    for v in c['vars']:
        v['p'] = ren(v['p'])
    for q in c['queries']:
        q['q'] = [ren(p) for p in seq(q['q'])]
        q['res'] = [[[ren(pv[0]), pv[1]] for pv in seq(r)] for r in q['res']]
    return c


def check_vanishing(rep, c):
    """A variable that is no longer emitted at the last time (its store was
    deleted, the agent divided): a query returns it for the times at which it was
    emitted and not for the last one."""
    n = c['n']
    if n < 2 or len(c['vars']) < 2:
        return
    gone = sorted(c['vars'], key=lambda v: v['p'])[-1]
    times = [float(i) for i in range(n)]
    em = RAMEmitter({})
    for i, t in enumerate(times):
        row = nested([(v['p'], ATOM[v['vals'][i]]()) for v in c['vars']
                      if not (i == n - 1 and v is gone)])
        em.emit({'table': 'history', 'data': dict(row, time=t)})
    for q in c['queries']:
        rep.evaluations += 1
        query = [tuple(p) for p in seq(q['q'])]
        exp = {t: nested([(pv[0], ATOM[pv[1]]()) for pv in seq(q['res'][i])
                          if not (i == n - 1 and list(pv[0]) == list(gone['p']))])
               for i, t in enumerate(times)}
        got = em.get_data_deserialized(query)
        if not eq(got, exp):
            rep.violation({'kind': 'vanishing', 'vars': json.dumps(c['vars'])},
                          'C18 get_data(query=%s) with %s not emitted at the last time: '
                          'expected %r got %r' % (query, gone['p'], exp, got), {'case': c})
            return
    rep.nontrivial.add('vanishing' + json.dumps(c['vars']))


def check_case(rep, c, variant=0):
    c = rename_case(c, variant)
    n = c['n']
    times = [float(i) for i in range(n)]
    rows = [nested([(v['p'], ATOM[v['vals'][i]]()) for v in c['vars']]) for i in range(n)]
    em = RAMEmitter({})
    for t, row in zip(times, rows):
        em.emit({'table': 'history', 'data': dict(row, time=t)})
        em.emit({'table': 'configuration', 'data': {}})
    bad = []
    # raw data
    raw = em.get_data_deserialized()
    exp_raw = {t: row for t, row in zip(times, rows)}
    if not eq(raw, exp_raw):
        bad.append(('get_data_deserialized', exp_raw, raw))
    # embedded / path timeseries
    emb_pairs, path_ts = [], {}
    for v in c['vars']:
        p = list(v['p'])
        if v['qty']:
            key = tuple(p[:-1]) + ((p[-1], UNIT_LABEL[v.get('kind', 'qty')]),)
            vals = [MAG[a] for a in v['vals']]
        else:
            key = tuple(p)
            vals = [ATOM[a]() for a in v['vals']]
        emb_pairs.append((list(key), vals))
        path_ts[key] = vals
    exp_emb = nested(emb_pairs)
    exp_emb['time'] = times
    path_ts['time'] = times
    for name, got in (('get_timeseries', em.get_timeseries()),
                      ('timeseries_from_data', timeseries_from_data(
                          {t: nested([(v['p'], ATOM[v['vals'][i]]()) for v in c['vars']])
                           for i, t in enumerate(times)}))):
        if not eq(got, exp_emb):
            bad.append((name, exp_emb, got))
    for name, got in (('get_path_timeseries', em.get_path_timeseries()),
                      ('path_timeseries_from_data', path_timeseries_from_data(
                          {t: nested([(v['p'], ATOM[v['vals'][i]]()) for v in c['vars']])
                           for i, t in enumerate(times)})),
                      ('path_timeseries_from_embedded_timeseries',
                       path_timeseries_from_embedded_timeseries(em.get_timeseries()))):
        if not eq(got, path_ts):
            bad.append((name, path_ts, got))
    # unitless
    exp_unitless = {t: nested([(v['p'], MAG[v['vals'][i]] if v['qty'] else ATOM[v['vals'][i]]())
                               for v in c['vars']]) for i, t in enumerate(times)}
    got = em.get_data_unitless()
    if not eq(got, exp_unitless):
        bad.append(('get_data_unitless', exp_unitless, got))
    # queries
    for q in c['queries']:
        rep.evaluations += 1
        query = [tuple(p) for p in q['q']]
        exp = {t: nested([(pv[0], ATOM[pv[1]]()) for pv in seq(q['res'][i])])
               for i, t in enumerate(times)}
        got = em.get_data_deserialized(query)
        if not eq(got, exp):
            bad.append(('get_data(query=%s)' % (query,), exp, got))
        if not any(v['qty'] for v in c['vars']):
            got = em.get_data(query)
            if not eq(got, exp):
                bad.append(('get_data(query=%s)' % (query,), exp, got))
    rep.evaluations += 1
    for b in bad[:2]:
        rep.violation({'kind': 'case', 'op': b[0].split('(')[0],
                       'vars': json.dumps(c['vars'])},
                      'C18 %s: expected %r got %r' % (b[0], b[1], b[2]),
                      {'case': c, 'op': b[0]})
    falsy = any(a in ('Zero', 'False', 'EmptyStr', 'EmptyList', 'QZero', 'None')
                for v in c['vars'] for a in v['vals'])
    if falsy:
        rep.nontrivial.add(json.dumps(c['vars']))


def get_nested(d, path):
    for k in path:
        d = d[k]
    return d


def check_unordered(rep, c):
    """Raw data whose rows were recorded out of time order (assembled from
    pieces, emitted by a rewound engine): whatever order the time vector comes
    back in, every list is aligned with it - reading cell i of a variable gives
    the value the raw data holds at time vector[i] - and every time is there."""
    n = c['n']
    if n < 2:
        return
    rep.evaluations += 1
    times = [float(i) for i in range(n)]
    rows = {t: nested([(v['p'], ATOM[v['vals'][i]]()) for v in c['vars']])
            for i, t in enumerate(times)}
    order = list(reversed(times))
    raw = {t: rows[t] for t in order}
    em = RAMEmitter({})
    for t in order:
        em.emit({'table': 'history', 'data': dict(rows[t], time=t)})
    views = [('timeseries_from_data', timeseries_from_data(raw), False),
             ('path_timeseries_from_data', path_timeseries_from_data(raw), True),
             ('get_timeseries', em.get_timeseries(), False),
             ('get_path_timeseries', em.get_path_timeseries(), True)]
    for name, ts, flat in views:
        tv = ts.get('time') if not flat else ts.get('time', ts.get(('time',)))
        if tv is None or sorted(tv) != times:
            rep.violation({'kind': 'unordered', 'op': name, 'what': 'time vector'},
                          'C18 %s of rows recorded at %r: time vector %r' % (name, order, tv),
                          {'case': c, 'unordered': True})
            return
        for v in c['vars']:
            p = list(v['p'])
            key = (tuple(p[:-1]) + ((p[-1], UNIT_LABEL[v.get('kind', 'qty')]),)) if v['qty'] \
                else tuple(p)
            try:
                col = ts[key] if flat else get_nested(ts, key)
            except KeyError:
                col = None
            exp = [(MAG[v['vals'][int(t)]] if v['qty'] else ATOM[v['vals'][int(t)]]())
                   for t in tv]
            if col is None or not eq(list(col), exp):
                rep.violation({'kind': 'unordered', 'op': name, 'what': 'alignment'},
                              'C18 %s of rows recorded at %r: time vector %r, %s lists %r; '
                              'the raw data holds %r at those times'
                              % (name, order, tv, p, col, exp), {'case': c, 'unordered': True})
                return
    rep.nontrivial.add('unordered' + json.dumps(c['vars']))


def run(rep, tier, scratch):
    consts = {'MaxVars': 2, 'MaxTimes': 2}
    cases = table.run_table(rep, 'Timeseries', 'Timeseries_' + tier,
                            table.cfg(consts, LAWS), scratch)
    if tier == 'quick':
        cases = cases[::3]
        rep.notes['subsample'] = 'every third case of the exported table (quick tier)'
    else:
        rep.exhaustive = True
    for k, c in enumerate(cases):
        rep.guard(check_case, rep, c, k % 2, what='history', detail=c.get('vars'))
        if k % 2 == 0:
            rep.guard(check_unordered, rep, c, what='rows out of time order',
                      detail=c.get('vars'))
        if k % 3 == 0:
            rep.guard(check_vanishing, rep, c, what='vanishing variable', detail=c.get('vars'))
    rep.traces = len(cases)
    if cases:
        rep.add_sample({'n': cases[7]['n'], 'vars': cases[7]['vars'],
                        'queries': cases[7]['queries'][:2]})


def check(prop, tier, seed):
    rep = Report(prop, tier, seed)
    rep.rule = ('every history with 1-2 variables over the shapes {a, b, c/a, c/b} x 1-2 '
                'times x value atoms {0, False, "", [], 1} or quantities {0 g, 1 g} per '
                'variable, x every query set of 1-2 paths from {a, c, c/b, z}; pushed '
                'through RAMEmitter; non-trivial = histories containing a falsy value')
    rep.assumptions = ['variables exist at every emitted time (as the property requires)',
                       'a variable holds quantities at all times or at none']
    with tlc.Scratch() as scratch:
        run(rep, tier, scratch)
    return rep.finish()


def replay(prop, path):
    rep = Report(prop, 'quick', 0)
    with tlc.Scratch() as scratch:
        run(rep, 'thorough', scratch)
    return rep.finish(write=False)
