"""C14: serialization. Serialize.tla defines serialize / deserialize over abstract
value trees and checks: error exactly for unsupported values and non-string
keys, plain output, idempotence, round trip to the canonical form, plain data
unchanged.  Every tree is bound to concrete witnesses and run through
serialize_value / deserialize_value; the results are abstracted back and
compared with what TLC computed."""
import json
import math
import random

import numpy as np

from vv import tlc, table
from vv.verdict import Report

import vivarium  # noqa
from vivarium.core.process import Process
from vivarium.core.serialize import serialize_value, deserialize_value
from vivarium.library.units import units
from pint import Quantity

LAWS = ['LawErrorIffBad', 'LawPlain', 'LawIdempotent', 'LawRoundTrip', 'LawPlainUnchanged']


class WitnessProcess(Process):
    defaults = {'k': 1}

    def ports_schema(self):
        return {}

    def next_update(self, timestep, states):
        return {}


def witness_function(x):
    return x


class Unsupported:
    pass


UNITS = [units.g, units.mg / units.L, units.fL, units.mmol / units.L ** 2, units.nanometer,
         units.nanogram / units.mL, units.dimensionless,
         # purely reciprocal units print as '1 / second': with a nan magnitude 'nan / second'
         1 / units.s, units.s ** -2, units.ampere, units.newton * units.attogram]
NUMS = [0, -7, 2 ** 53 - 1, 1.5, -2.25e-7, 1e300, 5e-324, 3]
STRS = ['', 'abc', 'hi [there]!', '!units', 'x]', '!units[', 'é\n"q"']
FIN_MAGS = [0, -1.5, 1e300, 5e-324, 2 ** 53 - 1, 3, 0.1]
PROC = WitnessProcess()


def leaf(t, rng):
    """returns (python value, canonical python value after a round trip)"""
    if t == 'num':
        w = rng.choice(NUMS)
        return w, w
    if t == 'str':
        w = rng.choice(STRS)
        return w, w
    if t == 'bool':
        w = rng.choice([True, False])
        return w, w
    if t == 'none':
        return None, None
    if t == 'npscalar':
        w = rng.choice([np.int64(3), np.float64(2.5), np.float32(0.5), np.int32(-4)])
        return w, w.item()
    if t == 'nparr':
        w = rng.choice([np.array([1, 2]), np.array([1.5, -2.0]),
                        np.array([2 ** 40, -1], dtype=np.int64),
                        np.array([0.5, 1e-300], dtype=np.float64)])
        return w, w.tolist()
    if t == 'nparr2':
        a = np.array([[1, 2], [3, 4]])
        f = np.array([[1.5, -2.0], [0.25, 8.0]])
        # the same values in every memory layout numpy hands out
        w = rng.choice([a, f, a.T, f.T, np.asfortranarray(f), a[::-1], f[:, ::-1],
                        np.broadcast_to(np.array([5, 6]), (2, 2)),
                        np.arange(8).reshape(2, 2, 2).transpose(2, 0, 1)[0]])
        return w, w.tolist()
    if t == 'qfin':
        w = rng.choice(FIN_MAGS) * rng.choice(UNITS)
        return w, w
    if t == 'qnan':
        w = math.nan * rng.choice(UNITS)
        return w, w
    if t == 'qinf':
        w = rng.choice([math.inf, -math.inf]) * rng.choice(UNITS)
        return w, w
    if t == 'unit':
        u = rng.choice(UNITS)
        return u, 1 * u
    if t == 'qarr':
        u = rng.choice(UNITS)
        a = rng.choice([np.array([1.5, -2.0]), np.array([3, 4])])
        return a * u, [x * u for x in a.tolist()]
    if t == 'qarr2':
        u = rng.choice(UNITS)
        a = rng.choice([np.array([[1.5, -2.0], [0.25, 8.0]]), np.array([[1, 2], [3, 4]])])
        return a * u, [[x * u for x in row] for row in a.tolist()]
    if t == 'proc':
        return PROC, 'PSTR'
    if t == 'func':
        return witness_function, 'FSTR'
    if t == 'unsup':
        return rng.choice([Unsupported(), complex(1, 2), b'bytes']), None
    raise ValueError(t)


def seq(x):
    return [] if x == {} else x


def SETKEY(z):
    return ('str' if isinstance(z, str) else 'num', z)


def instantiate(tree, rng):
    t = tree['t']
    kids = seq(tree['kids'])
    if t in ('list', 'tuple', 'set', 'dict', 'dictbad'):
        parts = [instantiate(k, rng) for k in kids]
        vals, canon = [p[0] for p in parts], [p[1] for p in parts]
        if t == 'list':
            return vals, canon
        if t == 'tuple':
            return tuple(vals), canon
        if t == 'set':
            # distinct members, so that the set has as many elements as the tree
            for _try in range(20):
                if len(set(vals)) == len(vals):
                    break
                parts = [instantiate(k, rng) for k in kids]
                vals = [p[0] for p in parts]
            s = set(vals)
            return s, sorted(s, key=SETKEY)
        if t == 'dict':
            return ({'k%d' % i: v for i, v in enumerate(vals)},
                    {'k%d' % i: v for i, v in enumerate(canon)})
        bad = rng.choice([1, (1, 2), np.str_('npkey')])
        d = {'k%d' % i: v for i, v in enumerate(vals)}
        d[bad] = 0
        return d, None
    return leaf(t, rng)


def abstract(x):
    if x is None:
        return {'t': 'none'}
    if type(x) is bool:
        return {'t': 'bool'}
    if type(x) in (int, float):
        return {'t': 'num'}
    if type(x) is str:
        if x.startswith('!units[') and x.endswith(']'):
            return {'t': 'ustr'}
        if x.startswith('!ProcessSerializer[') and x.endswith(']'):
            return {'t': 'pstr'}
        if x.startswith('!FunctionSerializer[') and x.endswith(']'):
            return {'t': 'fstr'}
        return {'t': 'str'}
    if type(x) is list:
        return {'t': 'list', 'kids': [abstract(k) for k in x]}
    if type(x) is dict:
        if not all(type(k) is str for k in x):
            return {'t': 'NONSTRING-KEYS'}
        return {'t': 'dict', 'kids': [abstract(x[k]) for k in sorted(x)]}
    return {'t': 'NOT-PLAIN:' + type(x).__name__}


def spec_shape(tree, orig=None):
    t = tree['t']
    if t in ('list', 'dict'):
        okids = seq(orig['kids']) if orig is not None and len(seq(orig['kids'])) == len(seq(tree['kids'])) \
            and orig['t'] in ('list', 'tuple', 'dict', 'set') else [None] * len(seq(tree['kids']))
        kids = [spec_shape(k, o) for k, o in zip(seq(tree['kids']), okids)]
        if orig is not None and orig['t'] == 'set':
            kids.sort(key=lambda k: k['t'])     # the order of a serialized set is unspecified
        return {'t': t, 'kids': kids}
    return {'t': t}


def canon_eq(got, exp):
    if exp == 'PSTR':
        return type(got) is str and got.startswith('!ProcessSerializer[')
    if exp == 'FSTR':
        return type(got) is str and got.startswith('!FunctionSerializer[')
    if isinstance(exp, Quantity):
        if not isinstance(got, Quantity) or got.units != exp.units:
            return False
        a, b = got.magnitude, exp.magnitude
        if isinstance(b, float) and math.isnan(b):
            return isinstance(a, float) and math.isnan(a)
        return a == b
    if isinstance(exp, list):
        return type(got) is list and len(got) == len(exp) and \
            all(canon_eq(g, e) for g, e in zip(got, exp))
    if isinstance(exp, dict):
        return type(got) is dict and got.keys() == exp.keys() and \
            all(canon_eq(got[k], exp[k]) for k in exp)
    if isinstance(exp, bool) or exp is None or isinstance(exp, str):
        return type(got) is type(exp) and got == exp
    return type(got) in (int, float) and got == exp


def sort_sets(tree, got):
    """the order of a serialized set is unspecified: sort it like the witness"""
    if tree['t'] == 'set' and type(got) is list:
        try:
            return sorted(got, key=SETKEY)
        except TypeError:
            return got
    kids = seq(tree['kids'])
    if tree['t'] in ('list', 'tuple') and type(got) is list and len(got) == len(kids):
        return [sort_sets(k, g) for k, g in zip(kids, got)]
    if tree['t'] == 'dict' and type(got) is dict:
        return {k: (sort_sets(kids[int(k[1:])], v) if k[1:].isdigit() and int(k[1:]) < len(kids) else v)
                for k, v in got.items()}
    return got


def check_tree(rep, row, rng, reps):
    for _ in range(reps):
        rep.evaluations += 1
        value, canon = instantiate(row['v'], rng)
        sig = {'kind': 'case', 'tree': json.dumps(row['v'], sort_keys=True)}
        desc = repr(value)[:300]
        try:
            out = serialize_value(value)
            raised = None
        except TypeError as e:
            raised = e
        except Exception as e:  # noqa
            rep.violation(dict(sig, what='wrong-exception'),
                          'C14 serialize_value(%s) raised %r instead of TypeError' % (desc, e),
                          {'row': row})
            continue
        if row['ser']['t'] == 'ERR':
            if raised is None:
                rep.violation(dict(sig, what='not-rejected'),
                              'C14 serialize_value(%s) returned %r; unsupported values and '
                              'non-string keys must be rejected with TypeError' % (desc, out),
                              {'row': row})
            continue
        if raised is not None:
            rep.violation(dict(sig, what='rejected'),
                          'C14 serialize_value(%s) raised %r' % (desc, raised), {'row': row})
            continue
        out = sort_sets(row['v'], out)
        if abstract(out) != spec_shape(row['ser'], row['v']):
            rep.violation(dict(sig, what='shape'),
                          'C14 serialize_value(%s) = %r has shape %s, specification %s'
                          % (desc, out, json.dumps(abstract(out)), json.dumps(spec_shape(row['ser'], row['v']))),
                          {'row': row})
            continue
        try:
            json.dumps(out, allow_nan=False)
        except Exception as e:
            rep.violation(dict(sig, what='not-json'),
                          'C14 serialize_value(%s) is not JSON data: %r' % (desc, e), {'row': row})
            continue
        again = sort_sets(row['v'], serialize_value(out))
        if again != out:
            rep.violation(dict(sig, what='idempotent'),
                          'C14 serializing the output again changes it: %r -> %r' % (out, again),
                          {'row': row})
            continue
        try:
            back = deserialize_value(out)
        except Exception as e:
            rep.violation(dict(sig, what='deserialize-raised'),
                          'C14 deserialize_value(%r) raised %r (original %s)' % (out, e, desc),
                          {'row': row})
            continue
        if not canon_eq(back, canon):
            rep.violation(dict(sig, what='roundtrip'),
                          'C14 round trip of %s gives %r, expected %r' % (desc, back, canon),
                          {'row': row})


def run(rep, tier, scratch, seed):
    consts = {'Depth2': 'TRUE'}
    rows = table.run_table(rep, 'Serialize', 'Serialize_' + tier, table.cfg(consts, LAWS), scratch)
    rng = random.Random(seed)
    rows.sort(key=lambda r: json.dumps(r['v'], sort_keys=True))
    if tier == 'quick':
        sel = [r for i, r in enumerate(rows) if not seq(r['v']['kids']) or i % 3 == 0]
        reps = 2
        rep.notes['subsample'] = 'all leaves and every third container tree (quick tier)'
    else:
        sel, reps = rows, 8
        rep.exhaustive = True
    for r in sel:
        k = 12 if not seq(r['v']['kids']) else reps
        check_tree(rep, r, rng, k)
        if r['ser']['t'] == 'ERR' or any(x in json.dumps(r['v']) for x in ('qnan', 'qinf', 'set', 'tuple')):
            rep.nontrivial.add(json.dumps(r['v'], sort_keys=True))
    rep.traces = len(sel)
    rep.add_sample(sel[len(sel) // 2])
    rep.add_sample(sel[len(sel) // 3])


def check(prop, tier, seed):
    rep = Report(prop, tier, seed)
    rep.rule = ('every value tree of depth <= 2 / width <= 2 over 13 leaf classes and list / '
                'tuple / set / dict / dict-with-non-string-key containers enumerated by TLC; '
                'each bound to concrete witnesses (numbers incl. 2^53-1, 1e300, 5e-324; strings '
                'with brackets and "!units" look-alikes; numpy scalars and arrays; quantities '
                'with finite, integer, nan and +-inf magnitudes in g, mg/L, fL, mmol/L**2; '
                'units; a process; a function; unsupported objects); non-trivial = trees that '
                'must be rejected or contain non-finite quantities, sets or tuples')
    rep.assumptions = ['TLA+ has no floats: the specification decides dispatch and structure; '
                       'numeric fidelity is exercised at the witnesses only',
                       'plain strings of the exact form !units[...] are outside the domain']
    with tlc.Scratch() as scratch:
        run(rep, tier, scratch, seed)
    return rep.finish()


def replay(prop, path):
    with open(path) as f:
        data = json.load(f)
    rep = Report(prop, 'quick', 0)
    row = data.get('replay', {}).get('row')
    if row:
        check_tree(rep, row, random.Random(1), 20)
    return rep.finish(write=False)
