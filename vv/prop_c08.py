"""C08: updaters. Updaters.tla enumerates values x updates x updaters (scalar,
override, batches over a three-variable hierarchy, merge, dict_value,
units), checks the algebraic laws, and exports the expected results; every
case is run through Store.apply_update with several concrete carriers."""
import copy
import json

import numpy as np

from vv import tlc, table
from vv.verdict import Report

import vivarium  # noqa: registers updaters
from vivarium.core.store import Store
from vivarium.library.units import units

LAWS = ['LawAccumulateCommutes', 'LawSetNull', 'LawNonNegative', 'LawUntouched', 'LawOverrideOnce',
        'LawMerge', 'LawDeepMerge', 'LawUnitsKept']

CARRIERS = {
    'int': lambda n: n,
    'float': lambda n: n / 4.0,
    'array': lambda n: np.array([n, 2 * n]),
    # fractional entries: sums strictly between 0 and 1 occur
    'farray': lambda n: np.array([n / 2.0, n / 4.0]),
    # quantities, scalar and array-valued
    'quantity': lambda n: (n / 4.0) * units.mg,
    'qarray': lambda n: np.array([n / 2.0, n / 4.0]) * units.mg,
}


def eq(a, b):
    if hasattr(a, 'magnitude') or hasattr(b, 'magnitude'):
        return hasattr(a, 'magnitude') and hasattr(b, 'magnitude') \
            and str(a.units) == str(b.units) and eq(a.magnitude, b.magnitude)
    if isinstance(a, np.ndarray) or isinstance(b, np.ndarray):
        return isinstance(a, np.ndarray) and isinstance(b, np.ndarray) \
            and a.shape == b.shape and bool(np.all(a == b))
    if isinstance(a, dict) and isinstance(b, dict):
        return a.keys() == b.keys() and all(eq(a[k], b[k]) for k in a)
    if isinstance(a, (list, tuple)) and isinstance(b, (list, tuple)):
        return len(a) == len(b) and all(eq(x, y) for x, y in zip(a, b))
    return type(a) == type(b) and a == b


def fn(x):
    """JSON export turns the empty function into []."""
    return {} if x == [] else x


def make(schema):
    s = Store(schema)
    s.apply_defaults()
    return s


def viol(rep, kind, case, what):
    rep.violation({'kind': 'case', 'table': kind, 'case': json.dumps(case, sort_keys=True)},
                  'C08 %s: %s; case %s' % (kind, what, json.dumps(case, sort_keys=True)),
                  {'case': case})


def run_scalar(rep, cases, override=False):
    for c in cases:
        for cname, car in CARRIERS.items():
            rep.evaluations += 1
            st = make({'x': {'_default': car(c['v']), '_updater': c['f']},
                       'other': {'_default': car(5), '_updater': 'accumulate'}})
            upd = car(c['u'])
            if override:
                upd = {'_value': upd, '_updater': c['g']}
            update = {'x': upd}
            before = copy.deepcopy(update)
            try:
                st.apply_update(update)
            except Exception as e:
                viol(rep, c['kind'], dict(c, carrier=cname), 'raised %r' % (e,))
                continue
            got = st.get_value()
            if not eq(got['x'], car(c['out'])):
                viol(rep, c['kind'], dict(c, carrier=cname),
                     'value is %r, specification says %r' % (got['x'], car(c['out'])))
            if not eq(got['other'], car(5)):
                viol(rep, c['kind'], dict(c, carrier=cname), 'an unmentioned variable changed')
            if not eq(update, before):
                viol(rep, c['kind'], dict(c, carrier=cname), 'the update object was modified')
            if override:
                # a plain update afterwards is combined by the declared updater
                try:
                    st.apply_update({'x': car(c['u'])})
                    got2 = st.get_value()['x']
                except Exception as e:
                    viol(rep, c['kind'], dict(c, carrier=cname, second=True), 'raised %r' % (e,))
                    continue
                if not eq(got2, car(c['out2'])):
                    viol(rep, c['kind'], dict(c, carrier=cname, second=True),
                         'after an update naming updater %s, a plain update gives %r; the '
                         'declared updater %s gives %r' % (c['g'], got2, c['f'], car(c['out2'])))
                # the same two updates in one _multi_update batch
                st2 = make({'x': {'_default': car(c['v']), '_updater': c['f']}})
                try:
                    st2.apply_update({'x': {'_multi_update': [
                        {'_value': car(c['u']), '_updater': c['g']}, car(c['u'])]}})
                    got3 = st2.get_value()['x']
                except Exception as e:
                    viol(rep, c['kind'], dict(c, carrier=cname, batch=True), 'raised %r' % (e,))
                    continue
                if not eq(got3, car(c['out2'])):
                    viol(rep, c['kind'], dict(c, carrier=cname, batch=True),
                         'the batch [update naming %s, plain update] gives %r, specification %r'
                         % (c['g'], got3, car(c['out2'])))
        if c['v'] + c['u'] < 0 or override:
            rep.nontrivial.add(json.dumps(c, sort_keys=True))


def run_batch(rep, cases):
    for c in cases:
        us = [fn(u) for u in c['us']]
        for cname, car in (('int', CARRIERS['int']), ('array', CARRIERS['array'])):
            schema = {n: {'_default': car(c['init'][n]), '_updater': c['decl'][n]}
                      for n in c['init']}
            # (a) one apply_update per update of the batch
            rep.evaluations += 1
            st = make({'h': schema})
            for u in us:
                update = {'h': {k: car(v) for k, v in u.items()}}
                before = copy.deepcopy(update)
                st.apply_update(update)
                if not eq(update, before):
                    viol(rep, 'batch', dict(c, carrier=cname), 'the update object was modified')
            got = st.get_value()['h']
            exp = {n: car(v) for n, v in c['out'].items()}
            if not eq(got, exp):
                viol(rep, 'batch', dict(c, carrier=cname),
                     'sequential application gives %r, specification %r' % (got, exp))
            # (b) the same batch folded into _multi_update lists
            rep.evaluations += 1
            st = make({'h': schema})
            multi = {}
            for u in us:
                for k, v in u.items():
                    multi.setdefault(k, []).append(car(v))
            update = {'h': {k: (vs[0] if len(vs) == 1 else {'_multi_update': vs})
                            for k, vs in multi.items()}}
            before = copy.deepcopy(update)
            st.apply_update(update)
            got = st.get_value()['h']
            if not eq(got, exp):
                viol(rep, 'batch', dict(c, carrier=cname, form='_multi_update'),
                     '_multi_update gives %r, specification %r' % (got, exp))
            if not eq(update, before):
                viol(rep, 'batch', dict(c, carrier=cname, form='_multi_update'),
                     'the update object was modified')
        if len(us) > 1 and set(us[0]) & set(us[1]):
            rep.nontrivial.add(json.dumps(c, sort_keys=True))


def entry_val(e):
    return e['v'] if e['t'] == 'i' else dict(e['d'])


def run_merge(rep, cases):
    for c in cases:
        rep.evaluations += 1
        v = {k: entry_val(e) for k, e in fn(c['v']).items()}
        u = {k: entry_val(e) for k, e in fn(c['u']).items()}
        exp = {k: entry_val(e) for k, e in fn(c['out']).items()}
        st = make({'m': {'_default': copy.deepcopy(v), '_updater': 'merge'},
                   'other': {'_default': 5}})
        update = {'m': copy.deepcopy(u)}
        before = copy.deepcopy(update)
        try:
            st.apply_update(update)
        except Exception as e:
            viol(rep, 'merge', c, 'raised %r' % (e,))
            continue
        got = st.get_value()
        if not eq(got['m'], exp):
            viol(rep, 'merge', c, 'value is %r, specification says %r' % (got['m'], exp))
        if not eq(update, before):
            viol(rep, 'merge', c, 'the update object was modified')
        if got['other'] != 5:
            viol(rep, 'merge', c, 'an unmentioned variable changed')
        if set(v) != set(u) and v and u:
            rep.nontrivial.add(json.dumps(c, sort_keys=True))


def from_rows(rows):
    d = {}
    for path, val in rows:
        cur = d
        for k in path[:-1]:
            cur = cur.setdefault(k, {})
        cur[path[-1]] = val
    return d


def run_deep(rep, cases):
    """merge on dictionaries up to three levels deep: two successive updates, a
    sibling variable declared with the same default object, and the same batch
    as one _multi_update; nothing but the variable itself may change"""
    for c in cases:
        rep.evaluations += 1
        v, u1, u2 = from_rows(c['v']), from_rows(c['u1']), from_rows(c['u2'])
        out1, out2 = from_rows(c['out1']), from_rows(c['out2'])
        shared = copy.deepcopy(v)
        st = make({'m': {'_default': shared, '_updater': 'merge'},
                   'sib': {'_default': shared, '_updater': 'merge'}})
        upd1, upd2 = {'m': copy.deepcopy(u1)}, {'m': copy.deepcopy(u2)}
        try:
            st.apply_update(upd1)
            mid = copy.deepcopy(st.get_value()['m'])
            st.apply_update(upd2)
        except Exception as e:
            viol(rep, 'deep', c, 'raised %r' % (e,))
            continue
        got = st.get_value()
        if not eq(mid, out1) or not eq(got['m'], out2):
            viol(rep, 'deep', c, 'values after the two updates are %r / %r, specification %r / %r'
                 % (mid, got['m'], out1, out2))
        elif not eq(got['sib'], v):
            viol(rep, 'deep', c, 'the sibling variable (declared with the same default) changed '
                 'to %r although only m was updated' % (got['sib'],))
        elif not eq(upd1, {'m': u1}) or not eq(upd2, {'m': u2}):
            viol(rep, 'deep', c, 'an update object was modified: first %r (was %r), second %r '
                 '(was %r)' % (upd1['m'], u1, upd2['m'], u2))
        # the same batch as one _multi_update
        rep.evaluations += 1
        st = make({'m': {'_default': copy.deepcopy(v), '_updater': 'merge'}})
        batch = {'m': {'_multi_update': [copy.deepcopy(u1), copy.deepcopy(u2)]}}
        try:
            st.apply_update(batch)
        except Exception as e:
            viol(rep, 'deep', dict(c, form='_multi_update'), 'raised %r' % (e,))
            continue
        if not eq(st.get_value()['m'], out2):
            viol(rep, 'deep', dict(c, form='_multi_update'), '_multi_update gives %r, specification %r'
                 % (st.get_value()['m'], out2))
        elif not eq(batch, {'m': {'_multi_update': [u1, u2]}}):
            viol(rep, 'deep', dict(c, form='_multi_update'), 'the update object was modified: %r'
                 % (batch,))
        if any(len(r[0]) >= 3 for r in c['v']):
            rep.nontrivial.add('deep' + json.dumps([c['v'], c['u1'], c['u2']]))


def run_reduce(rep, cases):
    def reducer(value, path, node):
        # sum the leaves of the subtree
        if not node.inner and isinstance(node.value, int):
            return value + node.value
        return value
    for c in cases:
        rep.evaluations += 1
        rc = c['rc']
        st = make({'src': {'x': {'_default': rc['leaves']['x']}, 'y': {'_default': rc['leaves']['y']}},
                   'tot': {'_default': rc['v'], '_updater': rc['f']}})
        upd = {'tot': {'_reduce': {'from': ('..', 'src'), 'initial': rc['initial'],
                                   'reducer': reducer}}}
        try:
            st.apply_update(upd)
        except Exception as e:
            viol(rep, 'reduce', c, 'raised %r' % (e,))
            continue
        got = st.get_value()
        if got['tot'] != c['out'] or got['src'] != rc['leaves']:
            viol(rep, 'reduce', c, '_reduce leaves %r, specification says tot=%r and the source '
                 'untouched' % (got, c['out']))
        if rc['leaves']['x'] + rc['leaves']['y'] > 0:
            rep.nontrivial.add('reduce' + json.dumps(c, sort_keys=True))


def run_dict_value(rep, cases):
    for c in cases:
        rep.evaluations += 1
        cur = {k: dict(v) for k, v in fn(c['cur']).items()}
        exp = {k: dict(v) for k, v in fn(c['out']).items()}
        update = {}
        add = fn(c['add'])
        if add:
            update['_add'] = [{'key': k, 'state': dict(v)} for k, v in add.items()]
        for k, v in fn(c['upd']).items():
            update[k] = dict(v)
        if c['del']:
            update['_delete'] = list(c['del'])
        st = make({'d': {'_default': copy.deepcopy(cur), '_updater': 'dict_value'}})
        upd = {'d': update}
        before = copy.deepcopy(upd)
        try:
            st.apply_update(upd)
        except Exception as e:
            viol(rep, 'dict_value', c, 'raised %r' % (e,))
            continue
        got = st.get_value()['d']
        if not eq(got, exp):
            viol(rep, 'dict_value', c, 'value is %r, specification says %r' % (got, exp))
        if not eq(upd, before):
            viol(rep, 'dict_value', c, 'the update object was modified')
        if update:
            rep.nontrivial.add(json.dumps(c, sort_keys=True))


def run_units(rep, cases):
    U = {'mg': units.mg, 'g': units.g}
    for c in cases:
        cs = c['cs']
        for form in ('scalar', 'list', 'named', 'function'):
            if form != 'scalar' and cs['f'] != 'set':
                continue
            rep.evaluations += 1
            decl, uu = U[cs['decl']], U[cs['uunit']]
            if form == 'list':
                default, upd = [cs['v'] * decl, cs['v'] * decl], [cs['u'] * uu, (cs['u'] + 1) * uu]
            else:
                default, upd = cs['v'] * decl, cs['u'] * uu
            # named: the variable accumulates, the update names 'set' itself;
            # function: the declared updater is a user function returning the update
            declared = {'named': 'accumulate', 'function': (lambda v, u: u)}.get(form, cs['f'])
            st = make({'q': {'_default': default, '_updater': declared}})
            quantities = upd if form == 'list' else [upd]
            handed = [(q.magnitude, str(q.units)) for q in quantities]
            try:
                st.apply_update({'q': {'_value': upd, '_updater': 'set'} if form == 'named'
                                 else upd})
            except Exception as e:
                viol(rep, 'units', dict(c, form=form), 'raised %r' % (e,))
                continue
            now = [(q.magnitude, str(q.units)) for q in quantities]
            if now != handed:
                viol(rep, 'units', dict(c, form=form),
                     'the update object was modified: the quantity handed in was %r and is now %r'
                     % (handed, now))
                continue
            got = st.get_value()['q']
            gots = got if form == 'list' else [got]
            bases = [c['base']] if form == 'scalar' else \
                [c['base'], c['base'] + (1000 if cs['uunit'] == 'g' else 1)]
            for g, b in zip(gots, bases):
                if g.units != decl:
                    viol(rep, 'units', dict(c, form=form),
                         'variable holds %r, not a quantity in its declared unit %s' % (g, decl))
                elif abs(g.to(units.mg).magnitude - b) > 1e-9:
                    viol(rep, 'units', dict(c, form=form),
                         'magnitude %r mg, specification says %r mg' % (g.to(units.mg).magnitude, b))
        if cs['decl'] != cs['uunit']:
            rep.nontrivial.add(json.dumps(c, sort_keys=True))


def run(rep, tier, scratch):
    consts = {'ScalN': 3 if tier == 'quick' else 5,
              'MaxBatch': 2 if tier == 'quick' else 3}
    t = table.run_table(rep, 'Updaters', 'Updaters_' + tier, table.cfg(consts, LAWS), scratch)
    if not t:
        return
    run_scalar(rep, t['scalar'])
    run_scalar(rep, t['override'], override=True)
    run_batch(rep, t['batch'])
    run_merge(rep, t['merge'])
    run_dict_value(rep, t['dict_value'])
    run_reduce(rep, t['reduce'])
    deep = t['deep'] if tier == 'thorough' else t['deep'][::9]
    run_deep(rep, deep)
    run_units(rep, t['units'])
    rep.traces = sum(len(v) for v in t.values())
    rep.notes['cases_per_table'] = {k: len(v) for k, v in t.items()}
    for k in ('batch', 'merge', 'units'):
        rep.add_sample({k: t[k][len(t[k]) // 2]}, limit=4)
    rep.exhaustive = True


def check(prop, tier, seed):
    rep = Report(prop, tier, seed)
    rep.rule = ('every case of the tables exported by Updaters.tla (scalars -N..N x '
                'updaters, updater overrides, batches of <= MaxBatch partial updates over '
                'three variables also folded into _multi_update, merge over dictionaries '
                'with nested entries, dict_value operations, quantities in mg/g) x '
                'carriers int/float/numpy array; non-trivial = negative sums, overrides, '
                'colliding batch entries, dictionaries with different key sets, unit conversion')
    rep.assumptions = ['integers stand for values through homomorphic carriers; '
                       'float carriers use n/4 so that sums are exact']
    with tlc.Scratch() as scratch:
        run(rep, tier, scratch)
    return rep.finish()


def replay(prop, path):
    rep = Report(prop, 'quick', 0)
    with tlc.Scratch() as scratch:
        run(rep, 'quick', scratch)
    return rep.finish(write=False)
