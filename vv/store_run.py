"""Structural histories against the real engine (C09, C10, C07).

A director process applies one structural update per tick to two branches
("agents", "pool") holding compartments built from templates; after every
tick the hierarchy, the engine's bookkeeping, the published composite, what
was invoked and what the observers saw are projected to the abstract state
of Store.tla."""
import contextlib
import copy
import io
import random

import vivarium  # noqa
from vivarium.core.engine import Engine
from vivarium.core.process import Process, Step
from vivarium.core.store import Store

LOG = []

X_SCHEMA = {'_default': 0, '_divider': 'set', '_emit': True}


class CompProc(Process):
    def ports_schema(self):
        return {'v': {'x': dict(X_SCHEMA)}}

    def next_update(self, timestep, states):
        LOG.append(('proc', id(self), copy.deepcopy(states)))
        return {'v': {'x': 1}}


class CntStep(Step):
    """adds 1 to its own counter; `up` names the step (same compartment) whose
    effect it must see: it declares that counter too and logs what it saw"""
    defaults = {'sname': 's1', 'up': None}

    def ports_schema(self):
        names = [self.parameters['sname']] + ([self.parameters['up']] if self.parameters['up'] else [])
        return {'c': {n: {'_default': 0, '_divider': 'zero', '_emit': True} for n in names}}

    def next_update(self, timestep, states):
        up = self.parameters['up']
        LOG.append(('step', id(self), timestep, states['c'][up] if up else None))
        return {'c': {self.parameters['sname']: 1}}


class LegacyCnt(Process):
    """The same counter written the old way: a plain Process that says it is a
    deriver (is_deriver is deprecated but supported; is_step follows it)."""
    defaults = dict(CntStep.defaults)
    ports_schema = CntStep.ports_schema
    next_update = CntStep.next_update

    def is_deriver(self):
        return True


TPL_STEPS = {'T0': [], 'T1': [], 'T2': ['s1', 's2'], 'T3': ['d'], 'T4': ['d', 's1'],
             'T5': ['d', 'e']}
TPL_FLOW = {'s1': [], 's2': [('s1',)]}     # 'd', 'e' have no flow entry: legacy derivers
UPSTREAM = {('T2', 's2'): 's1', ('T4', 's1'): 'd', ('T5', 'e'): 'd'}


def template(tpl, x0, parallel=False):
    procs, steps, flow, topo = {}, {}, {}, {}
    if tpl != 'T0':
        cfg = {'_parallel': True} if parallel else {}
        procs['p'] = CompProc(cfg)
        topo['p'] = {'v': ('v',)}
    nested = NEST2[0] and tpl == 'T2'
    for s in TPL_STEPS[tpl]:
        scfg = {'sname': s, 'up': UPSTREAM.get((tpl, s))}
        if parallel:
            scfg['_parallel'] = True
        # (the deriver of T3 is written the legacy way)
        step = LegacyCnt(scfg) if (tpl == 'T3' and s == 'd') else CntStep(scfg)
        if nested:
            steps.setdefault(INNER, {})[s] = step
            topo.setdefault(INNER, {})[s] = {'c': ('..', 'c')}
            flow.setdefault(INNER, {})[s] = list(TPL_FLOW[s])
            continue
        steps[s] = step
        topo[s] = {'c': ('c',)}
        if s in TPL_FLOW:
            flow[s] = list(TPL_FLOW[s])
    return {'processes': procs, 'steps': steps, 'flow': flow, 'topology': topo,
            'initial_state': {'v': {'x': x0}}}


def structural_update(op, tree_tpl, parallel=False):
    """The director's update {port: update} for an abstract operation.

    op['noise'] adds a part that changes nothing after the structural part (the
    abstract operation is the same): 1 - an empty update for another branch,
    2 - an update adding 0 to a compartment the operation does not involve."""
    upd = structural_update0(op, tree_tpl, parallel)
    noise = op.get('noise')
    if noise and upd and op['op'] not in ('none', 'addex'):
        upd = {k: dict(v) for k, v in upd.items()}
        if noise == 1:
            for b in ('pool', 'leaves', 'agents'):
                if b not in upd:
                    upd[b] = {}
                    break
        else:
            for b in upd:
                if b == 'leaves':
                    continue
                used = {op.get(f) for f in ('k', 'k2', 'd1', 'd2')}
                others = sorted(k for (bb, k) in tree_tpl if bb == b and k not in used)
                if others:
                    upd[b][others[0]] = {'v': {'x': 0}}
    return upd


def structural_update0(op, tree_tpl, parallel=False):
    o = op['op']
    if o == 'none':
        return {}
    if o in ('add', 'addex'):
        return {'agents': {'_add': [{'key': op['k'], 'state': {'v': {'x': op.get('x0', 0)}}}]}}
    if o in ('del', 'delpath') and op.get('via') == 'root':
        # the same deletion named by a path of two elements, sent to the root
        return {'root': {'_delete': [('agents', op['k'])]}}
    if o in ('del', 'delpath') and op.get('via') == 'dotdot':
        # ... and by a path that climbs out of the store it is sent to
        return {'pool': {'_delete': [('..', 'agents', op['k'])]}}
    if o == 'del':
        return {'agents': {'_delete': [op['k']]}}
    if o == 'delpath':
        return {'agents': {'_delete': [(op['k'],)]}}
    if o == 'gen':
        g = template(op['tpl'], op['x0'], parallel)
        g['key'] = op['k']
        if op.get('stepsin'):
            # the older way: the steps listed among the processes (their flow
            # still in 'flow')
            for k, v in g.pop('steps').items():
                if isinstance(v, dict):
                    g['processes'].setdefault(k, {}).update(v)
                else:
                    g['processes'][k] = v
            g['steps'] = {}
        return {'agents': {'_generate': [g]}}
    if o in ('div', 'divx'):
        tpl = tree_tpl[('agents', op['k'])]
        if op.get('keyonly'):
            # daughters named by key only: they get copies of the mother's
            # processes, steps, flow and topology
            return {'agents': {'_divide': {'mother': op['k'],
                                           'daughters': [{'key': op['d1']}, {'key': op['d2']}]}}}
        ds = []
        for d in (op['d1'], op['d2']):
            t = template(tpl, 0, parallel)
            t['key'] = d
            # divx: the daughter entries list a value for a variable the mother holds
            t['initial_state'] = {'v': {'x': op['x0']}} if o == 'divx' else {}
            ds.append(t)
        return {'agents': {'_divide': {'mother': op['k'], 'daughters': ds}}}
    if o == 'move':
        return {'agents': {'_move': [{'source': (op['k'],), 'target': 'pool'}]}}
    if o == 'moveupd':
        return {'agents': {'_move': [{'source': (op['k'],), 'target': 'pool',
                                      'update': {'v': {'x': 3}}}]}}
    if o == 'movegen':
        g = template(op['tpl'], op['x0'], parallel)
        g['key'] = op['k']
        return {'agents': {'_move': [{'source': (op['k'],), 'target': 'pool'}],
                           '_generate': [g]}}
    if o == 'moveback':
        return {'pool': {'_move': [{'source': (op['k'],), 'target': 'agents'}]}}
    if o == 'add2':
        return {'agents': {'_add': [{'key': op['k'], 'state': {'v': {'x': op['x0']}}}]},
                'agents2': {'_add': [{'key': op['k2'], 'state': {'v': {'x': op['x0']}}}]}}
    if o == 'adddel':
        return {'agents': {'_add': [{'key': op['k'], 'state': {'v': {'x': op['x0']}}}],
                           '_delete': [op['k2']]}}
    if o == 'gendel':
        g = template(op['tpl'], op['x0'], parallel)
        g['key'] = op['k']
        return {'agents': {'_generate': [g], '_delete': [op['k2']]}}
    if o == 'gen2':
        g = template(op['tpl'], op['x0'], parallel)
        g['key'] = op['k']
        g2 = template(op['tpl'], op['x0'], parallel)
        g2['key'] = op['k2']
        return {'agents': {'_generate': [g]}, 'pool': {'_generate': [g2]}}
    if o == 'addleaf':
        return {'leaves': {'_add': [{'key': op['k'], 'state': op['v']}]}}
    if o == 'delleaf':
        return {'leaves': {'_delete': [op['k']]}}
    raise ValueError(o)


GLOB = {'*': {'v': {'x': dict(X_SCHEMA)}}}
# bare mode (a history whose first operation carries 'bare': True): every glob
# port is declared {'*': {}}, the common idiom that names no sub-variable.  A
# branch whose last child has gone then has neither children nor a sub-schema.
GLOB_BARE = {'*': {}}
BARE = [False]
# nested mode (a history whose first operation carries 'nest2': True): the flow
# steps s1 <- s2 of template T2 live one level down, in a sub-store 'inner' of the
# compartment, with a nested flow and a topology that reaches back with '..'.
# Abstractly nothing changes: the projections drop the 'inner' path element.
NEST2 = [False]
INNER = 'inner'


def flat(path):
    return [k for k in path if k != INNER]


def glob():
    return copy.deepcopy(GLOB_BARE if BARE[0] else GLOB)
LEAVES = {'*': {'_default': 5, '_emit': True}}


def shape_of(x, depth=6):
    """The nested key structure of an update (dictionaries and lists, down to the
    entries of the structural directives): what Store.apply_update must not add to
    or take out of the caller's dictionaries (C08: 'the update object handed in
    is not modified')."""
    if isinstance(x, dict) and depth > 0:
        return {str(k): shape_of(v, depth - 1) for k, v in x.items()}
    if isinstance(x, (list, tuple)) and depth > 0 and any(isinstance(v, dict) for v in x):
        return [shape_of(v, depth - 1) for v in x]
    if isinstance(x, dict):
        return sorted(map(str, x))
    return type(x).__name__


class Director(Process):
    """issues the operations whose mode is 'proc' (the others are the step's)"""
    defaults = {'script': []}
    MODE = 'proc'

    def __init__(self, parameters=None):
        super().__init__(parameters)
        self.i = 0
        self.tree_tpl = {}
        self.par = False

    def ports_schema(self):
        # ('agents2': a second port on the store of the agents)
        return {'agents': glob(), 'pool': glob(), 'agents2': glob(),
                'leaves': copy.deepcopy(LEAVES), 'root': {'_output': True}}

    def next_update(self, timestep, states):
        LOG.append((self.MODE + 'director', copy.deepcopy(states)))
        script = self.parameters['script']
        op = script[self.i] if 0 <= self.i < len(script) else {'op': 'none'}
        self.i += 1
        if op.get('mode', 'proc') != self.MODE:
            return {}
        upd = structural_update(op, self.tree_tpl, self.par)
        # the update object handed to the engine must come back unmodified
        # (its shape is compared: the processes in it are not comparable)
        self.handed = (upd, shape_of(upd))
        return upd


class StepDirector(Director, Step):
    """the same director as a flow step (no dependencies; its path sorts last)"""
    MODE = 'step'

    def __init__(self, parameters=None):
        Director.__init__(self, parameters)
        self.i = -1        # the constructor's step phase comes before the first tick


class Watcher(Step):
    """a step in the layer after the step director: what it sees must be the
    hierarchy as the director's operation left it"""
    def ports_schema(self):
        pool = glob()
        if not BARE[0]:
            # a sub-variable only this port declares, and only for the pool: every
            # compartment in the pool must have it (generated there or moved in)
            pool['*']['w'] = {'_default': 9, '_emit': True}
        return {'agents': glob(), 'pool': pool}

    def next_update(self, timestep, states):
        LOG.append(('watcher', copy.deepcopy(states)))
        return {}


class Bystander(Step):
    """A step in the same layer as the step director whose path sorts after it:
    its ordinary (or empty) update is applied after the director's structural
    one."""
    def ports_schema(self):
        return {'g': {'b': {'_default': 0, '_emit': True}}}

    def next_update(self, timestep, states):
        self.n = getattr(self, 'n', 0) + 1
        return {'g': {'b': 1}} if self.n % 2 else {}


class Observer(Process):
    """Glob port on the agents with one declared sub-variable, a plain port,
    an output port and (watch) a plain port wired into compartment agents/a."""
    defaults = {'watch': False}

    def ports_schema(self):
        sch = {'ag': glob(), 'g': {'t': {'_default': 0, '_emit': True}},
               'out': {'_output': True, 'w': {'_default': 0}}}
        if self.parameters['watch']:
            sch['w'] = {'x': dict(X_SCHEMA)}
        return sch

    def next_update(self, timestep, states):
        LOG.append(('observer', copy.deepcopy(states)))
        return {'g': {'t': 1}}


def tpl_of(node):
    names = set(node.inner.keys())
    if INNER in names:
        names = (names - {INNER}) | set(node.inner[INNER].inner.keys())
    has_p = 'p' in names
    steps = sorted(n for n in ('s1', 's2', 'd', 'e') if n in names)
    if not has_p and not steps:
        return 'T0'
    for t, ss in TPL_STEPS.items():
        if t != 'T0' and sorted(ss) == steps and has_p:
            return t
    return 'T?' + ','.join(sorted(names))


def proc_leaves(d, prefix=()):
    out = []
    if isinstance(d, dict):
        for k, v in d.items():
            out += proc_leaves(v, prefix + (k,))
    elif isinstance(d, Process):
        out.append(flat(prefix))
    return out


def published_split(eng):
    """The published processes and steps, told apart by what they are: a step
    may be published among the processes (the older way of listing steps, which
    a _generate may use as well); a new engine treats it as a step either way."""
    def walk(d, prefix=()):
        if isinstance(d, dict):
            for k, v in d.items():
                yield from walk(v, prefix + (k,))
        elif isinstance(d, Process):
            yield flat(prefix), d
    procs, steps = [], []
    for path, obj in list(walk(eng.processes)) + list(walk(eng.steps)):
        (steps if obj.is_step() else procs).append(path)
    return procs, steps


def flow_leaves(d, prefix=()):
    out = []
    if isinstance(d, dict):
        for k, v in d.items():
            out += flow_leaves(v, prefix + (k,))
    elif isinstance(d, list):
        def dep(x):
            if isinstance(x, tuple) and all(isinstance(y, str) for y in x):
                return list(x)
            return ['BAD', type(x).__name__]
        out.append([flat(prefix), sorted(dep(x) for x in d)])
    else:
        out.append([flat(prefix), [['BAD', type(d).__name__]]])
    return out


def topo_leaves(d, prefix=()):
    """paths of the processes that have a topology entry ({port: path})"""
    out = []
    if isinstance(d, dict):
        if d and all(isinstance(v, tuple) for v in d.values()):
            return [flat(prefix)]
        for k, v in d.items():
            out += topo_leaves(v, prefix + (k,))
    return out


def comp_paths(ps):
    return sorted(p for p in ps if p and p[0] in ('agents', 'pool'))


def project(eng, prev_ids):
    tree, origin, ids = {}, [], {}
    for b in ('agents', 'pool'):
        tree[b] = {}
        bnode = eng.state.inner.get(b)
        if bnode is None:
            continue
        for k, node in bnode.inner.items():
            comp = {'tpl': tpl_of(node), 'x': -999, 'cnt': {}}
            try:
                comp['x'] = node.inner['v'].inner['x'].value
            except Exception:
                comp['x'] = -999
            cstore = node.inner.get('c')
            if cstore is not None:
                comp['cnt'] = {s: n.value for s, n in cstore.inner.items()}
            tree[b][k] = comp
            # identity: the compartment node and every node below it
            # (the sub-variable 'w' that the watcher declares for the children of
            #  the pool is created when a compartment arrives there: not compared)
            sub = sorted((tuple(flat(p)), id(n)) for p, n in node.depth()
                         if tuple(p) != ('w',) and tuple(p) != (INNER,))
            ids[(b, k)] = sub
            org = ['new']
            for loc, old in prev_ids.items():
                if old == sub:
                    org = list(loc)
                    break
                if old and sub and old[0][1] == sub[0][1]:
                    org = ['partial'] + list(loc)
            origin.append([[b, k], org])
    g = eng._step_graph
    deps = []
    for n in g._graph.nodes:
        if n[0] not in ('agents', 'pool'):
            continue
        deps.append([flat(n), sorted(flat(p) for p in g._graph.predecessors(n))])
    leaves = {}
    lnode = eng.state.inner.get('leaves')
    if lnode is not None:
        leaves = {k: (n.value if isinstance(n.value, int) else -999) for k, n in lnode.inner.items()}
    try:
        bys = eng.state.inner['glob'].inner['b'].value
        bys = bys if isinstance(bys, int) else -999
    except Exception:
        bys = -999
    obs = {
        'tree': tree, 'origin': origin, 'leaves': leaves, 'bys': bys,
        'eprocs': comp_paths([flat(p) for p in eng.process_paths]),
        'esteps': comp_paths([flat(p) for p in eng._step_paths]),
        'eseq': [flat(p) for p in g._sequential_steps],
        'deps': sorted(deps),
        'pubP': comp_paths(published_split(eng)[0]),
        'pubS': comp_paths(published_split(eng)[1]),
        'pubF': sorted(x for x in flow_leaves(eng.flow) if x[0][0] in ('agents', 'pool')),
        'pubT': comp_paths(topo_leaves(eng.topology)),
        'hierP': comp_paths(proc_leaves(eng.state.get_processes() or {})),
        'hierS': comp_paths(proc_leaves(eng.state.get_steps() or {})),
        'hierF': sorted(x for x in flow_leaves(eng.state.get_flow() or {})
                        if x[0][0] in ('agents', 'pool')),
    }
    return obs, ids


def id_paths(eng):
    out = {}
    for path, node in eng.state.depth():
        if isinstance(node.value, Process):
            out[id(node.value)] = flat(path)
    return out


def view_x(view, extra=None):
    if extra and not BARE[0]:
        # the entries must also hold the extra declared sub-variable, with its default
        if any(not (isinstance(v, dict) and v.get(extra) == 9) for k, v in view.items()
               if k != '__none__'):
            return {k: -888 for k in view}
        view = {k: ({kk: vv for kk, vv in v.items() if kk != extra} if isinstance(v, dict) else v)
                for k, v in view.items()}
    if BARE[0]:
        # one entry per child, holding nothing (no sub-variable is declared)
        return {k: (-1 if v == {} or k == '__none__' else -888) for k, v in view.items()}
    return {k: (v['v']['x'] if isinstance(v, dict) and set(v.keys()) == {'v'}
                and isinstance(v['v'], dict) and set(v['v'].keys()) == {'x'}
                and isinstance(v['v']['x'], int) else -888) for k, v in view.items()}


def run_history(ops, initial=(), parallel=False, via_composite=False):
    """initial: [(branch, name, tpl, x0)]; returns (records, engine)"""
    global LOG
    LOG = []
    BARE[0] = bool(ops and ops[0].get('bare'))
    NEST2[0] = bool(ops and ops[0].get('nest2'))
    director = Director({'script': list(ops)})
    director.par = parallel
    sdirector = StepDirector({'script': list(ops)})
    sdirector.par = parallel
    watch = any(b == 'agents' and k == 'a' for b, k, _t, _x in initial)
    processes = {'director': director, 'observer': Observer({'watch': watch})}
    dtopo = {'agents': ('agents',), 'pool': ('pool',), 'agents2': ('agents',),
             'leaves': ('leaves',), 'root': ()}
    if ops and ops[0].get('gdict'):
        # the same wiring written as glob dictionaries
        dtopo['agents'] = {'_path': ('agents',), '*': {}}
        dtopo['pool'] = {'_path': ('pool',), '*': {}}
    topology = {'director': dict(dtopo),
                'observer': {'ag': ('agents',), 'g': ('glob',), 'out': ('outs',)},
                'zdirector': dict(dtopo),
                'zwatcher': {'agents': ('agents',), 'pool': ('pool',)},
                'zzbystander': {'g': ('glob',)}}
    if watch:
        topology['observer']['w'] = ('agents', 'a', 'v')
    steps = {'zdirector': sdirector, 'zwatcher': Watcher(), 'zzbystander': Bystander()}
    flow = {'zdirector': [], 'zwatcher': [('zdirector',)], 'zzbystander': []}
    state = {'agents': {}, 'pool': {}, 'leaves': {}}
    tree_tpl = {}
    for b, k, tpl, x0 in initial:
        t = template(tpl, x0, parallel)
        processes.setdefault(b, {})[k] = dict(t['processes'])
        topology.setdefault(b, {})[k] = dict(t['topology'])
        if t['steps']:
            steps.setdefault(b, {})[k] = dict(t['steps'])
            flow.setdefault(b, {})[k] = dict(t['flow'])
        state[b][k] = {'v': {'x': x0}}
        tree_tpl[(b, k)] = tpl
    director.tree_tpl = tree_tpl
    sdirector.tree_tpl = tree_tpl
    eng = Engine(processes=processes, topology=topology, steps=steps, flow=flow,
                 initial_state=state, display_info=False, emitter='null')
    recs = [{'ev': 'init', 'initial': [[b, k, tpl, x0] for b, k, tpl, x0 in initial]}]
    obs, ids = project(eng, {})
    recs[0]['obs'] = obs
    for op in ops:
        LOG = []
        before = id_paths(eng)
        exc = None
        try:
            with contextlib.redirect_stdout(io.StringIO()):
                eng.update(1)
        except Exception as e:     # the store re-wraps exception types
            exc = '%s: %s' % (type(e).__name__, str(e)[:160])
        after = id_paths(eng)
        rec = {'ev': 'tick', 'op': op, 'exc': exc is not None, 'exc_text': exc or ''}
        invoked = {}
        seen = []
        dview = oview = zview = None
        director_ran = False
        for ev in LOG:
            if ev[0] == 'stepdirector':
                director_ran = True
            if ev[0] == 'proc':
                p = before.get(ev[1], ['zombie', str(ev[1])])
                invoked[tuple(p)] = invoked.get(tuple(p), 0) + 1
            elif ev[0] == 'step':
                p = after.get(ev[1]) or before.get(ev[1], ['zombie', str(ev[1])])
                if op.get('mode') == 'step' and ev[1] in before and ev[1] in after \
                        and before[ev[1]] != after[ev[1]] and not director_ran:
                    # a step that ran and was then moved: report it where it ran
                    # (one that runs after the move runs at its new place)
                    p = before[ev[1]]
                invoked[tuple(p)] = invoked.get(tuple(p), 0) + 1
                if ev[2] != 0:
                    invoked[('step_ts_nonzero',)] = 1
                if ev[3] is not None:
                    seen.append([list(p), ev[3]])
            elif ev[0] == 'procdirector':
                dview = ev[1]
            elif ev[0] == 'observer':
                oview = ev[1]
            elif ev[0] == 'watcher':
                zview = ev[1]
        rec['seen'] = sorted(seen)
        rec['mode'] = op.get('mode', 'proc')
        none0 = {'__none__': -1}
        rec['zview'] = {'agents': none0, 'pool': none0} if zview is None else \
            {'agents': view_x(zview.get('agents', none0)),
             'pool': view_x(zview.get('pool', none0), extra='w')}
        rec['invoked'] = sorted([list(p), n] for p, n in invoked.items())
        none = {'__none__': -1}
        rec['dview'] = {'agents': none, 'pool': none} if dview is None else \
            {'agents': view_x(dview.get('agents', none)), 'pool': view_x(dview.get('pool', none))}
        rec['oview'] = {'ag': none, 'keys': [], 'out': none} if oview is None else \
            {'ag': view_x(oview.get('ag', none)),
             'keys': sorted(k for k in oview.keys() if k != 'w'),
             'out': oview['out'] if isinstance(oview.get('out'), dict) else none}
        rec['watch'] = watch
        rec['bare'] = BARE[0]
        rec['updmut'] = False
        for d in (director, sdirector):
            handed = getattr(d, 'handed', None)
            if handed is not None and shape_of(handed[0]) != handed[1]:
                rec['updmut'] = True
            d.handed = None
        w = (oview or {}).get('w', {}) if watch else {}
        rec['wview'] = w if isinstance(w, dict) and all(isinstance(v, int) for v in w.values()) \
            else none
        obs, ids = project(eng, ids)
        rec['obs'] = obs
        recs.append(rec)
        tree_tpl.clear()
        for loc, comp in [((b, k), c) for b in obs['tree'] for k, c in obs['tree'][b].items()]:
            tree_tpl[loc] = comp['tpl']
        if exc is not None:
            break
    # (a plain port wired into a compartment that has been deleted would re-create
    #  it in a rebuilt engine: no rebuild comparison in that case)
    dangling = watch and 'a' not in recs[-1]['obs']['tree']['agents']
    if recs[-1].get('exc') is not True and not parallel and not dangling:
        recs.append(rebuild_record(eng, ids))
    try:
        eng.end()
    except Exception:
        pass
    return recs, eng


def vars_only(value):
    if isinstance(value, dict):
        return {k: vars_only(v) for k, v in value.items()
                if not (isinstance(v, tuple) and v and isinstance(v[0], Process))}
    return value


def comparable(obs, cnt_offset=0):
    o = {k: obs[k] for k in ('leaves', 'eprocs', 'esteps', 'eseq', 'deps', 'pubP', 'pubS',
                             'pubF', 'pubT', 'hierP', 'hierS', 'hierF')}
    # the order in which independent derivers are registered follows the history in
    # one engine and the dictionary order of the published composite in the other
    o['eseq'] = sorted(o['eseq'])
    o['tree'] = {b: {k: {'tpl': c['tpl'], 'x': c['x'],
                         'cnt': {s: n - cnt_offset for s, n in c['cnt'].items()}}
                     for k, c in comps.items()} for b, comps in obs['tree'].items()}
    return o


def rebuild_record(eng, ids):
    """C10, last clause: a new engine built from the published composite and the
    current (variables-only) state continues identically.  Both engines are run two
    more ticks; the rebuilt one has run its constructor's step phase once more."""
    from vivarium.library.dict_utils import deep_copy_internal
    rec = {'ev': 'rebuild', 'same': False, 'exc': '', 'diff': ''}
    try:
        with contextlib.redirect_stdout(io.StringIO()):
            new = Engine(processes=deep_copy_internal(eng.processes),
                         steps=deep_copy_internal(eng.steps),
                         flow=copy.deepcopy(eng.flow), topology=copy.deepcopy(eng.topology),
                         initial_state=vars_only(eng.state.get_value()),
                         display_info=False, emitter='null')
            for _ in range(2):
                eng.update(1)
                new.update(1)
        a, _ids = project(eng, {})
        b, _ids = project(new, {})
        ca, cb = comparable(a), comparable(b, 1)
        rec['same'] = ca == cb
        if not rec['same']:
            rec['diff'] = ', '.join(k for k in ca if ca[k] != cb[k])
    except Exception as e:
        rec['exc'] = '%s: %s' % (type(e).__name__, str(e)[:200])
    return rec


# ------------------------------------------------------------- generators

NAMES = ['a', 'b', 'c']


def applicable_ops(model, tpls=('T1', 'T2', 'T3'), names=NAMES, max_comps=3):
    """model: {'agents': {name: tpl}, 'pool': {...}} -> list of abstract ops"""
    ag, po = model['agents'], model['pool']
    lv = model.get('leaves', {})
    ops = [{'op': 'none'}]
    for k in names[:2]:
        if k in lv:
            ops.append({'op': 'delleaf', 'k': k})
        else:
            ops.append({'op': 'addleaf', 'k': k, 'v': 0})
            ops.append({'op': 'addleaf', 'k': k, 'v': 7})
    n = len(ag) + len(po)
    for k in names:
        if k not in ag:
            if n < max_comps:
                ops.append({'op': 'add', 'k': k, 'x0': 5})
                for t in tpls:
                    ops.append({'op': 'gen', 'k': k, 'tpl': t, 'x0': 0})
                # a generated compartment without processes: its variable is
                # declared by the glob ports of others only, its state is given
                ops.append({'op': 'gen', 'k': k, 'tpl': 'T0', 'x0': 5})
            if n + 1 < max_comps:
                for j in names:
                    if j not in po and j != k:
                        ops.append({'op': 'gen2', 'k': k, 'tpl': tpls[0], 'x0': 0, 'k2': j})
                        break
            if n + 1 < max_comps:
                for j in names:
                    if j not in ag and j != k:
                        ops.append({'op': 'add2', 'k': k, 'x0': 5, 'k2': j})
                        break
            for j in ag:
                if j != k:
                    ops.append({'op': 'adddel', 'k': k, 'x0': 5, 'k2': j})
                    ops.append({'op': 'gendel', 'k': k, 'tpl': tpls[-1], 'x0': 0, 'k2': j})
        else:
            ops.append({'op': 'addex', 'k': k})
            ops.append({'op': 'del', 'k': k})
            ops.append({'op': 'delpath', 'k': k})
            if k not in po:
                ops.append({'op': 'move', 'k': k})
                ops.append({'op': 'moveupd', 'k': k})
                if n < max_comps:
                    ops.append({'op': 'movegen', 'k': k, 'tpl': tpls[0], 'x0': 0})
            free = [d for d in names if d not in ag]
            if len(free) >= 2 and n < max_comps:
                ops.append({'op': 'div', 'k': k, 'd1': free[0], 'd2': free[1]})
                ops.append({'op': 'divx', 'k': k, 'd1': free[0], 'd2': free[1], 'x0': 7})
        if k in po and k not in ag:
            ops.append({'op': 'moveback', 'k': k})
    return ops


def apply_model(model, op):
    m = {'agents': dict(model['agents']), 'pool': dict(model['pool']),
         'leaves': dict(model.get('leaves', {}))}
    o = op['op']
    if o == 'addleaf':
        m['leaves'][op['k']] = op['v']
    if o == 'delleaf':
        del m['leaves'][op['k']]
    if o == 'add2':
        m['agents'][op['k2']] = 'T0'
    if o in ('add', 'adddel', 'add2'):
        m['agents'][op['k']] = 'T0'
    if o in ('gen', 'gendel', 'gen2'):
        m['agents'][op['k']] = op['tpl']
    if o == 'gen2':
        m['pool'][op['k2']] = op['tpl']
    if o in ('del', 'delpath'):
        del m['agents'][op['k']]
    if o in ('adddel', 'gendel'):
        del m['agents'][op['k2']]
    if o in ('div', 'divx'):
        t = m['agents'].pop(op['k'])
        m['agents'][op['d1']] = t
        m['agents'][op['d2']] = t
    if o in ('move', 'moveupd'):
        m['pool'][op['k']] = m['agents'].pop(op['k'])
    if o == 'movegen':
        m['pool'][op['k']] = m['agents'].pop(op['k'])
        m['agents'][op['k']] = op['tpl']
    if o == 'moveback':
        m['agents'][op['k']] = m['pool'].pop(op['k'])
    return m


def all_histories(depth, initial_model, modes=('proc', 'step'), **kw):
    """every sequence of applicable operations of the given length, each issued
    by the director process or by the director step"""
    def rec(model, d):
        if d == 0:
            yield []
            return
        for op in applicable_ops(model, **kw):
            if op['op'] == 'addex':
                yield [dict(op, mode='proc')]
                continue
            for mode in (modes if op['op'] != 'none' else ('proc',)):
                for rest in rec(apply_model(model, op), d - 1):
                    yield [dict(op, mode=mode)] + rest
    return rec(initial_model, depth)


def random_history(rng, length, initial_model, **kw):
    model, ops = initial_model, []
    for _ in range(length):
        cand = [o for o in applicable_ops(model, **kw) if o['op'] != 'addex' or rng.random() < 0.1]
        op = dict(rng.choice(cand))
        op['mode'] = 'proc' if op['op'] in ('addex', 'none') else rng.choice(['proc', 'step'])
        if op['op'] not in ('addex', 'none') and rng.random() < 0.35:
            op['noise'] = rng.choice([1, 2])
        if op['op'] == 'div' and rng.random() < 0.5:
            op['keyonly'] = True
        if op['op'] == 'gen' and rng.random() < 0.3:
            op['stepsin'] = True
        if op['op'] in ('del', 'delpath') and rng.random() < 0.5:
            op['via'] = rng.choice(['root', 'root', 'dotdot'])
        ops.append(op)
        if op['op'] == 'addex':
            break
        model = apply_model(model, op)
    return ops
