"""Stateful systematic exploration of the real scheduler.

Every answer a process gives when polled (timestep, condition) is a choice.
The explorer runs the real engine along a prefix of choices; when the prefix
is exhausted at a choice point it computes the abstract scheduler state
(call index, global time, the projection of Engine.front, who is asking what)
and expands that state only once: the first option is followed in the same
run, the others are queued.  Every run - complete or cut when it reaches a
state already expanded - yields a trace (a prefix of an execution), and all of
them go to TLC.  Within the bounds every reachable abstract state of the
implementation and every (state, answer) transition is exercised at least once.
"""
from vv import probes
from vv.probes import ProbeProcess, Stall
from vv import engine_run as er

from vivarium.core.engine import Engine, EmptyDefer


class Prune(Exception):
    pass


class Oracle:
    def __init__(self, ts_set, conds, max_states):
        self.ts_set, self.conds = list(ts_set), list(conds)
        self.seen = set()
        self.stack = []
        self.max_states = max_states
        self.prefix = []
        self.pos = 0
        self.call_idx = 0
        self.calls = []
        self.expanded = 0

    def start(self, prefix, calls):
        self.prefix = list(prefix)
        self.pos = 0
        self.call_idx = 0
        self.calls = calls

    def key(self, kind, pid, extra):
        eng = probes.REC.engine
        fr = []
        for path, adv in sorted(eng.front.items()):
            upd = adv['update']
            state = 0
            if upd:
                state = 2 if isinstance(upd[0], EmptyDefer) else 1
            fr.append((path[-1], adv['time'], state, adv.get('timestep', 0)))
        return (self.call_idx, eng.global_time, tuple(fr), kind, pid, extra)

    def choose(self, kind, pid, extra=None):
        options = self.ts_set if kind == 'ts' else self.conds
        if self.pos < len(self.prefix):
            ans = self.prefix[self.pos]
            self.pos += 1
            return ans
        k = self.key(kind, pid, extra)
        if k in self.seen or self.expanded >= self.max_states:
            raise Prune()
        self.seen.add(k)
        self.expanded += 1
        for alt in options[1:]:
            self.stack.append(self.prefix + [alt])
        self.prefix.append(options[0])
        self.pos += 1
        return options[0]


ORACLE = None


class ChoiceProbe(ProbeProcess):
    def calculate_timestep(self, states):
        ans = ORACLE.choose('ts', self.pid)
        probes.REC.add('ts', self.pid, ans, probes.REC.now(), probes.plain(states.get('v', {})))
        return ans

    def update_condition(self, timestep, states):
        ans = ORACLE.choose('cond', self.pid, timestep)
        probes.REC.add('cond', self.pid, timestep, bool(ans), probes.REC.now())
        return ans


def explore(nprocs, ts_set, conds, calls, max_states=20000, max_runs=60000):
    """Returns (scenario, list of traces (records), number of abstract states expanded)."""
    global ORACLE
    pids = ['p%d' % (i + 1) for i in range(nprocs)]
    sc = {'procs': {p: {'vars': [p, 's'], 'writes': {'s': [1]}, 'ts': [1], 'cond': [True]}
                    for p in pids},
          'order': pids, 'calls': [list(c) for c in calls], 'emit_step': 1, 'init': {}}
    ORACLE = Oracle(ts_set, conds, max_states)
    ORACLE.stack.append([])
    traces = []
    runs = 0
    stalls = 0
    while ORACLE.stack and runs < max_runs and stalls < 6:
        prefix = ORACLE.stack.pop()
        runs += 1
        ORACLE.start(prefix, calls)
        rec = probes.reset(0, max_events=100000)
        try:
            with er.Watchdog(30.0):
                procs = {p: ChoiceProbe(dict(sc['procs'][p], pid=p)) for p in pids}
                eng = Engine(processes=procs, topology={p: {'v': ('v',)} for p in pids},
                             initial_state={'v': {}}, emitter={'type': 'verif'},
                             display_info=False)
                rec.engine = eng
                for i, (iv, force) in enumerate(calls):
                    ORACLE.call_idx = i
                    rec.add('call', iv, bool(force), eng.global_time)
                    if force:
                        eng.update(iv)
                    else:
                        eng.run_for(iv)
                    rec.add('return', eng.global_time, er.front_projection(eng))
        except Prune:
            # a timestep was asked and the run cut before the condition: the poll
            # is incomplete and must not be mistaken for a deferral
            if rec.events and rec.events[-1][0] == 'ts':
                rec.events.pop()
        except Stall:
            stalls += 1
            rec.events.append(('stall',))
        except BaseException as e:  # noqa
            # the store wraps exceptions raised inside callbacks: a wrapped Prune is a cut
            if 'Prune' in repr(e) or isinstance(getattr(e, '__context__', None), Prune):
                if rec.events and rec.events[-1][0] == 'ts':
                    rec.events.pop()
            elif rec.stalled:
                stalls += 1
                rec.events.append(('stall',))
            else:
                rec.events.append(('exc', type(e).__name__ + ': ' + str(e)[:200]))
        # drop a trailing incomplete poll (a timestep asked, the run cut at the condition)
        traces.append(er.to_records(sc, rec.events))
    return sc, traces, ORACLE.expanded, len(ORACLE.stack)
