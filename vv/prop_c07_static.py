"""C07, static half: for every Topology.tla case the states dictionary handed
to the process has exactly the shape of its ports schema (declared variables
only, glob ports one entry per child restricted to the declared sub-variables,
output ports empty), although the stores hold extra variables."""
from vv import table, topo_cases as tc

LAWS = ['LawTotal']


def run(rep, tier, scratch):
    consts = {'MaxPorts': 1 if tier == 'quick' else 2, 'Locs2': 'TRUE'}
    cases = table.run_table(rep, 'Topology', 'Topology_C07_' + tier,
                            table.cfg(consts, LAWS), scratch)
    cases.sort(key=tc.case_id)
    stride = 1 if tier == 'quick' else 5
    n = 0
    for case in cases[::stride]:
        rep.evaluations += 1
        n += 1
        b = tc.build(case)
        sig = {'kind': 'case', 'case': tc.case_id(case), 'what': 'view_shape'}
        try:
            eng = tc.make_engine(b)
            eng.update(1)
        except Exception as e:
            rep.violation(sig, 'C07 engine raised %r for case %s' % (e, tc.case_id(case)),
                          {'case': case})
            continue
        view = b.log[0] if b.log else None
        exp = tc.expected_view(b, b.initial)
        if view != exp:
            rep.violation(sig, 'C07 the states dictionary is %r, the ports schema and the '
                          'hierarchy give %r; case %s' % (view, exp, tc.case_id(case)),
                          {'case': case})
        if any(p['kind'] in ('glob', 'output') for p in case['ports']):
            rep.nontrivial.add('static-' + tc.case_id(case))
    rep.traces += n
    rep.notes['static_view_cases'] = n
    rep.guard(co_declarers, rep, what='two glob declarers on one store')
    rep.guard(generated_glob_declarer, rep, what='a generated process with a glob port')


def co_declarers(rep):
    """Two processes declare, through glob ports on one store, different
    sub-variables of its children - next to each other or below a shared key.
    Each sees, for every child (also one added at run time), exactly the
    variables it declared."""
    import copy
    from vivarium.core.engine import Engine
    from vivarium.core.process import Process

    class Declarer(Process):
        defaults = {'sub': {}, 'log': None, 'add': None, 'time_step': 1}

        def ports_schema(self):
            return {'agents': {'*': copy.deepcopy(self.parameters['sub'])}}

        def next_update(self, timestep, states):
            self.parameters['log'].append(copy.deepcopy(states['agents']))
            if self.parameters['add'] and len(self.parameters['log']) == 1:
                return {'agents': {'_add': [{'key': self.parameters['add'], 'state': {}}]}}
            return {}

    def leaf(d):
        return {'_default': d}

    def shape(sub):
        return {k: (shape(v) if '_default' not in v else v['_default']) for k, v in sub.items()}
    forms = {
        'flat': ({'x': leaf(1)}, {'y': leaf(2)}),
        'nested': ({'internal': {'x': leaf(1)}}, {'internal': {'y': leaf(2)}}),
        'nested2': ({'i': {'j': {'x': leaf(1)}, 'k': leaf(3)}}, {'i': {'j': {'y': leaf(2)}}}),
    }
    for name, (sa, sb) in forms.items():
        for order in ('ab', 'ba'):
            rep.evaluations += 1
            sig = {'kind': 'co-declarers', 'form': name, 'order': order}
            la, lb = [], []
            procs = {'a': Declarer({'sub': sa, 'log': la, 'add': '3'}),
                     'b': Declarer({'sub': sb, 'log': lb})}
            try:
                eng = Engine(processes={k: procs[k] for k in order},
                             topology={k: {'agents': ('agents',)} for k in order},
                             initial_state={'agents': {'1': {}, '2': {}}},
                             display_info=False, emitter='null')
                eng.update(1)
                eng.update(1)
            except Exception as e:
                rep.violation(sig, 'C07 two glob declarers on one store (%s, listed %s) raised %r'
                              % (name, order, e), {})
                continue
            for who, log, sub in (('a', la, sa), ('b', lb, sb)):
                want = [{k: shape(sub) for k in ('1', '2')}, {k: shape(sub) for k in ('1', '2', '3')}]
                if log != want:
                    rep.violation(dict(sig, who=who),
                                  'C07 process %s declares %r for the children of a store that '
                                  'another process declares %r for (listed %s): its views are '
                                  '%r, expected %r' % (who, sub, sb if who == 'a' else sa, order,
                                                       log, want), {})
                    break
            rep.nontrivial.add('co-declarers-%s-%s' % (name, order))



def generated_glob_declarer(rep):
    """A process generated at run time declares, through a glob port wired to
    the store that holds its compartment and its siblings, a sub-variable of
    every child: from its first invocation on it sees every child with that
    variable (holding its default) - the children that were there before it as
    well as its own compartment."""
    import copy
    from vivarium.core.engine import Engine
    from vivarium.core.process import Process

    class Census(Process):
        defaults = {'log': None, 'time_step': 1}

        def ports_schema(self):
            return {'all': {'*': {'age': {'_default': 4}}}}

        def next_update(self, timestep, states):
            self.parameters['log'].append(copy.deepcopy(states['all']))
            return {}

    class Maker(Process):
        defaults = {'log': None, 'via': 'generate', 'time_step': 1}

        def ports_schema(self):
            return {'agents': {'*': {'mass': {'_default': 1}}}}

        def next_update(self, timestep, states):
            if getattr(self, 'done', False):
                return {}
            self.done = True
            entry = {'key': 'new', 'processes': {'census': Census({'log': self.parameters['log']})},
                     'topology': {'census': {'all': ('..',)}}, 'initial_state': {}}
            if self.parameters['via'] == 'divide':
                return {'agents': {'_divide': {'mother': 'a0', 'daughters': [
                    entry, {'key': 'other', 'processes': {}, 'topology': {},
                            'initial_state': {}}]}}}
            return {'agents': {'_generate': [entry]}}
    for via in ('generate', 'divide'):
        rep.evaluations += 1
        sig = {'kind': 'generated-glob-declarer', 'via': via}
        log = []
        try:
            eng = Engine(processes={'maker': Maker({'log': log, 'via': via})},
                         topology={'maker': {'agents': ('agents',)}},
                         initial_state={'agents': {'a0': {}, 'a1': {}}},
                         display_info=False, emitter='null')
            eng.update(1)
            eng.update(1)
            eng.update(1)
        except Exception as e:
            rep.violation(sig, 'C07 a process with a glob port generated at run time (%s) '
                          'raised %r' % (via, e), {})
            continue
        kids = ['a0', 'a1', 'new'] if via == 'generate' else ['a1', 'new', 'other']
        want = {k: {'age': 4} for k in kids}
        if not log or any(v != want for v in log):
            rep.violation(sig, 'C07 a process generated at run time (%s) with the glob port '
                          '{*: {age: default 4}} on the store of its siblings sees %r, expected '
                          '%r at every invocation' % (via, log[:2], want), {})
        rep.nontrivial.add('generated-glob-' + via)
