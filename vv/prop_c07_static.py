"""C07, static half: for every Topology.tla case the states dictionary handed
to the process has exactly the shape of its ports schema (declared variables
only, glob ports one entry per child restricted to the declared sub-variables,
output ports empty), although the stores hold extra variables."""
from vv import table, topo_cases as tc

LAWS = ['LawTotal']


def run(rep, tier, scratch):
    consts = {'MaxPorts': 1 if tier == 'quick' else 2, 'Locs2': 'TRUE'}
    cases = table.run_table(rep, 'Topology', 'Topology_C07_' + tier,
                            table.cfg(consts, LAWS), scratch)
    cases.sort(key=tc.case_id)
    stride = 1 if tier == 'quick' else 5
    n = 0
    for case in cases[::stride]:
        rep.evaluations += 1
        n += 1
        b = tc.build(case)
        sig = {'kind': 'case', 'case': tc.case_id(case), 'what': 'view_shape'}
        try:
            eng = tc.make_engine(b)
            eng.update(1)
        except Exception as e:
            rep.violation(sig, 'C07 engine raised %r for case %s' % (e, tc.case_id(case)),
                          {'case': case})
            continue
        view = b.log[0] if b.log else None
        exp = tc.expected_view(b, b.initial)
        if view != exp:
            rep.violation(sig, 'C07 the states dictionary is %r, the ports schema and the '
                          'hierarchy give %r; case %s' % (view, exp, tc.case_id(case)),
                          {'case': case})
        if any(p['kind'] in ('glob', 'output') for p in case['ports']):
            rep.nontrivial.add('static-' + tc.case_id(case))
    rep.traces += n
    rep.notes['static_view_cases'] = n
