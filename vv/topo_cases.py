"""Instantiate the cases exported by Topology.tla on the real engine.

Shared by C06 (read/write the same node), C07 (shape of the view) and C15
(initial values and defaults)."""
import copy
import json

import vivarium  # noqa
from vivarium.core.engine import Engine
from vivarium.core.process import Process


class TopoProbe(Process):
    """Declares the ports of a case, records its view, returns given amounts."""
    defaults = {'schema': {}, 'update': {}, 'log': None}

    def ports_schema(self):
        return copy.deepcopy(self.parameters['schema'])

    def calculate_timestep(self, states):
        return 1

    def next_update(self, timestep, states):
        self.parameters['log'].append(copy.deepcopy(states))
        # the same object every time (a process may well cache its update):
        # it must come back unmodified
        if not hasattr(self, 'cached'):
            self.cached = copy.deepcopy(self.parameters['update'])
        return self.cached


def log_updater(value, update):
    """keeps every update it receives (a falsy one too)"""
    return tuple(value) + (update,)


# the amounts of the 'log' form: falsy ones first
LOG_AMOUNTS = [0, False, '', 0.0, 5, [], 7, None]


class Extra(Process):
    """Declares extra variables next to the probed ones."""
    defaults = {'n': 0}

    def ports_schema(self):
        return {'e%d' % i: {'zz': {'_default': 7}} for i in range(self.parameters['n'])}

    def next_update(self, timestep, states):
        return {}


def nested_set(d, path, value):
    cur = d
    for k in path[:-1]:
        cur = cur.setdefault(k, {})
    cur[path[-1]] = value


def flatten(d, prefix=()):
    out = {}
    if isinstance(d, dict):
        for k, v in d.items():
            out.update(flatten(v, prefix + (k,)))
        return out
    if isinstance(d, tuple) and d and isinstance(d[0], Process):
        return {}
    out[prefix] = d
    return out


def seq(x):
    return [] if x == {} else x


class Built:
    pass


def build(case, given=None, extra=True, defaults_distinct=False, wrap=False):
    """Build processes/topology/initial state for a case.

    given: set of node tuples that receive an explicit initial value (None: all)
    """
    b = Built()
    loc = tuple(case['loc'])
    variables = sorted(case['vars'], key=lambda x: (x['port'], x['v']))
    nodes = sorted({tuple(x['node']) for x in variables})
    b.nodes = nodes
    b.node_index = {n: i for i, n in enumerate(nodes)}
    b.initial = {n: 100 * (i + 1) for i, n in enumerate(nodes)}
    b.default = {n: (1000 + i if defaults_distinct else 0) for i, n in enumerate(nodes)}
    if wrap == 'log':
        b.initial = {n: () for n in nodes}
        b.default = {n: () for n in nodes}
    b.given = set(nodes) if given is None else set(given)
    b.amount = {}
    schema, topo, update = {}, {}, {}
    for port in case['ports']:
        name, kind = port['name'], port['kind']
        pvars = [x for x in variables if x['port'] == name]

        def leaf(x):
            if wrap == 'log':
                return {'_default': (), '_emit': True, '_updater': log_updater}
            return {'_default': b.default[tuple(x['node'])], '_emit': True}
        if kind == 'leaf':
            schema[name] = leaf(pvars[0])
        elif kind in ('branch', 'output'):
            schema[name] = {x['v'][0]: leaf(x) for x in pvars}
            if kind == 'output':
                schema[name]['_output'] = True
        elif kind == 'nested':
            schema[name] = {'n': {x['v'][1]: leaf(x) for x in pvars}}
        elif kind == 'glob':
            schema[name] = {'*': {x['v'][1]: (leaf(x) if wrap == 'log' else
                                              {'_default': 0, '_emit': True}) for x in pvars}}
        elif kind == 'glob2':
            schema[name] = {'*': {'pool': {'*': {x['v'][3]: (leaf(x) if wrap == 'log' else
                                                             {'_default': 0, '_emit': True})
                                                 for x in pvars}}}}
        if port['t'] == 'omit':
            pass       # the topology does not mention the port
        elif port['t'] == 'path':
            topo[name] = tuple(port['p'])
        elif port['t'] == 'gpath':
            topo[name] = {'*': tuple(port['p'])}
        elif port['t'] == 'gdict':
            d = {'_path': tuple(port['p'])}
            for child, p in seq(port['sub']):
                d[child] = tuple(p)
            topo[name] = {'*': d}
        else:
            d = {}
            if port['hasp']:
                d['_path'] = tuple(port['p'])
            for child, p in seq(port['sub']):
                d[child] = tuple(p)
            topo[name] = d
    for i, x in enumerate(variables):
        amt = 2 ** i
        if wrap == 'mixed0' and i == 0:
            amt = 0      # a plain, falsy amount first, updates naming their updater after
        if wrap == 'log':
            amt = LOG_AMOUNTS[i % len(LOG_AMOUNTS)]
        b.amount[(x['port'], tuple(x['v']))] = amt
        # wrap: the update names its updater itself (the form C08 describes)
        val = {'_value': amt, '_updater': 'accumulate'} \
            if (wrap is True or (wrap == 'mixed0' and i > 0)) else amt
        if x['v']:
            nested_set(update, [x['port']] + list(x['v']), val)
        else:
            update[x['port']] = val
    b.log = []
    probe = TopoProbe({'schema': schema, 'update': update, 'log': b.log})
    b.probe, b.update = probe, copy.deepcopy(update)
    processes, topology = {}, {}
    nested_set(processes, list(loc) + ['proc'], probe)
    nested_set(topology, list(loc) + ['proc'], topo)
    # stores holding extra variables: one sibling 'zz' per parent store
    parents = sorted({n[:-1] for n in nodes if len(n) > 1})
    glob_nodes = {tuple(x['node'][:-2]) for x in variables
                  for port in case['ports']
                  if port['kind'] == 'glob' and x['port'] == port['name']}
    # (for a glob inside a glob the members of the inner store also get an
    #  explicitly declared sibling: they then exist before sub-schemas are applied)
    glob_nodes |= {tuple(x['node'][:-4]) for x in variables
                   for port in case['ports']
                   if port['kind'] == 'glob2' and x['port'] == port['name']}
    glob_nodes |= {tuple(x['node'][:-2]) for x in variables
                   for port in case['ports']
                   if port['kind'] == 'glob2' and x['port'] == port['name']}
    parents = [p for p in parents if p not in glob_nodes and p != loc + ('proc',)]
    if extra == 'noglob':
        # the children of plain glob ports are then created by the initial state
        # naming them, not by a sibling declaration
        plain_globs = {tuple(x['node'][:-2]) for x in variables for port in case['ports']
                       if port['kind'] == 'glob' and x['port'] == port['name']}
        parents = [p for p in parents
                   if not any(p[:len(g)] == g and len(p) > len(g) for g in plain_globs)]
    b.extra_nodes = []
    if extra and parents:
        processes['zz_other'] = Extra({'n': len(parents)})
        topology['zz_other'] = {'e%d' % i: tuple(p) for i, p in enumerate(parents)}
        b.extra_nodes = [p + ('zz',) for p in parents]
    initial = {}
    for n in nodes:
        if n in b.given:
            nested_set(initial, list(n), b.initial[n])
    # children of glob nodes must exist: name them in the initial state
    for x in variables:
        n = tuple(x['node'])
        for port in case['ports']:
            if port['kind'] in ('glob', 'glob2') and x['port'] == port['name'] and n not in b.given:
                cur = initial
                for k in n[:-1]:
                    cur = cur.setdefault(k, {})
    b.processes, b.topology, b.initial_state = processes, topology, initial
    b.variables = variables
    b.case = case
    return b


def expected_view(b, values):
    view = {}
    for port in b.case['ports']:
        name, kind = port['name'], port['kind']
        pvars = [x for x in b.variables if x['port'] == name]
        if kind == 'leaf':
            view[name] = values[tuple(pvars[0]['node'])]
        elif kind == 'output':
            view[name] = {}
        else:
            view[name] = {}
            for x in pvars:
                nested_set(view[name], list(x['v']), values[tuple(x['node'])])
    return view


def make_engine(b):
    return Engine(processes=b.processes, topology=b.topology,
                  initial_state=copy.deepcopy(b.initial_state),
                  display_info=False, emitter='null')


def case_id(case):
    return json.dumps({'loc': case['loc'], 'ports': case['ports']}, sort_keys=True)
