import random, json, time, collections, sys
from vv import engine_run as er, tlc
def main(n=400, seed=1, show=()):
    rng = random.Random(seed)
    traces=[]; scs=[]
    for i in range(n):
        sc=er.random_scenario(rng, state_dependent=(i%3==0))
        raw=er.run_scenario(sc, watchdog=2)
        traces.append(er.to_records(sc, raw)); scs.append(sc)
    with tlc.Scratch() as d:
        t=time.time()
        rej,res,diags=tlc.validate_traces(traces,d)
        print('time',round(time.time()-t,1),'states',res.distinct,'rejected',len(rej), 'violated', res.violated)
        c=collections.Counter()
        seen=set()
        for t_,rows in diags.items():
            k=tuple(sorted(tlc.pick_failing_rules(rows)))
            c[k]+=1
            if k in seen: continue
            seen.add(k)
            if show=='all' or k in show:
                print('=====',k, 'stuck at', rej[t_], rows)
                print(json.dumps(scs[t_]))
                for i,r in enumerate(traces[t_][:rej[t_]+1]): print(i+1, json.dumps(r))
        print(c)
        if res.violated or res.error: print(res.stdout[-3000:])
if __name__=='__main__':
    main(int(sys.argv[1]) if len(sys.argv)>1 else 400, show=sys.argv[2] if len(sys.argv)>2 else ())
