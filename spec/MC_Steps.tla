----------------------------- MODULE MC_Steps -----------------------------
(***************************************************************************)
(* Step phases over every flow: the initial states range over all acyclic  *)
(* dependency maps on the graph steps and all duplicate-free orderings of  *)
(* the legacy derivers (steps without a flow entry).                       *)
(***************************************************************************)
EXTENDS Engine
CONSTANTS InitLive, EmitStep, MaxSeq

RECURSIVE Reach(_, _, _)
Reach(s, D, n) == IF n = 0 THEN {} ELSE D[s] \cup UNION {Reach(d, D, n - 1) : d \in D[s]}
Acyclic(D, G) == \A s \in G : s \notin Reach(s, D, Cardinality(G))

SeqsOver(S) == UNION {{q \in [1..n -> S] : \A i, j \in 1..n : i # j => q[i] # q[j]} : n \in 0..MaxSeq}

StepsInit ==
  \E sq \in SeqsOver(Steps) :
    LET Sq == {sq[i] : i \in 1..Len(sq)}
        G == Steps \ Sq
    IN \E D \in [Steps -> SUBSET G] :
         /\ \A s \in Sq : D[s] = {}
         /\ Acyclic(D, G)
         /\ InitWith(InitLive, [v \in Vars |-> 0], Steps, D, sq, EmitStep, 0)

StepsSpec == StepsInit /\ [][Next]_vars /\ Fairness

\* steps without flow entries run first, one at a time, in declaration order
C05_SeqFirstInOrder ==
  /\ \A j \in 1..Len(seqSteps) :
        seqSteps[j] \in invPhase =>
           \A i \in 1..(j - 1) : seqSteps[i] \in phaseSet \cap liveSteps => seqSteps[i] \in ranPhase
  /\ \A s \in invPhase \ {seqSteps[i] : i \in 1..Len(seqSteps)} :
        \A i \in 1..Len(seqSteps) :
           seqSteps[i] \in phaseSet \cap liveSteps => seqSteps[i] \in ranPhase
\* a phase starts only when the whole batch has been applied
C05_SeesBatch == InSteps => due = {}
\* every step of the phase has run exactly once when the phase ends
C05_AllRanAtEnd ==
  [][(InSteps /\ ~InSteps') => (phaseSet \cap liveSteps) \subseteq ranPhase]_vars
=============================================================================
