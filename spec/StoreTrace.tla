----------------------------- MODULE StoreTrace -----------------------------
(***************************************************************************)
(* Trace validation of structural histories against Store.tla.  One record *)
(* per tick: the operation the director issued and the projection of the   *)
(* real engine after the tick (tree, identities, bookkeeping, published    *)
(* composite, what ran, what the observers saw).                           *)
(***************************************************************************)
EXTENDS Store, Json, IOUtils, TLCExt

File   == JsonDeserialize(IOEnv.TRACE_FILE)
Traces == File.traces
DiagL  == File.diag

VARIABLES tid, l
tvars == <<vars, tid, l>>
Tr   == Traces[tid]
Ev   == Tr[l]
More == l <= Len(Tr)
Normal == More /\ (DiagL[tid] = 0 \/ l < DiagL[tid])
SeqToSet(s) == {s[i] : i \in 1..Len(s)}

\* ---- comparison of a projection o with a specification state
TreeShapeBad(o, T) ==
  \E b \in Branches :
     \/ DOMAIN o.tree[b] # DOMAIN T[b]
     \/ \E k \in DOMAIN T[b] \cap DOMAIN o.tree[b] : o.tree[b][k].tpl # T[b][k].tpl
TreeXBad(o, T) ==
  \E b \in Branches : \E k \in DOMAIN T[b] \cap DOMAIN o.tree[b] : o.tree[b][k].x # T[b][k].x
TreeCntBad(o, T) ==
  \E b \in Branches : \E k \in DOMAIN T[b] \cap DOMAIN o.tree[b] :
     \/ DOMAIN o.tree[b][k].cnt # DOMAIN T[b][k].cnt
     \/ \E s \in DOMAIN T[b][k].cnt \cap DOMAIN o.tree[b][k].cnt :
           o.tree[b][k].cnt[s] # T[b][k].cnt[s]
OriginOf(o) == {<<x[1], x[2]>> : x \in SeqToSet(o.origin)}
OriginBad(o, T, org) ==
  \E x \in SeqToSet(o.origin) :
     /\ x[1] \in DOMAIN org
     \* (observed and specified origins are both sequences of strings: New,
     \*  a location, or <<"partial">> \o location for a subtree found in pieces)
     /\ x[2] # org[x[1]]
\* C10 compares the engine's bookkeeping with the hierarchy as observed
\* (o.tree has the shape of a specification tree)
NoDup(q) == \A i, j \in 1..Len(q) : i # j => q[i] # q[j]
BookBad(o, T, sq, ordered) ==
  \/ SeqToSet(o.eprocs) # ProcPaths(T)
  \/ SeqToSet(o.esteps) # StepPaths(T)
  \/ SeqToSet(o.eseq) # DeriverPaths(T) \/ ~NoDup(o.eseq)
  \/ (ordered /\ o.eseq # sq)
  \/ {<<x[1], SeqToSet(x[2])>> : x \in SeqToSet(o.deps)}
       # {<<p, GraphDeps(T)[p]>> : p \in DOMAIN GraphDeps(T)}
\* the flow as published: step path -> relative paths of its dependencies
FlowOf(T) == {<<p, {<<d>> : d \in TplDeps(CompAt(T, <<p[1], p[2]>>).tpl, p[3])}>> :
                p \in StepPaths(T) \ DeriverPaths(T)}
FlowObs(f) == {<<x[1], SeqToSet(x[2])>> : x \in SeqToSet(f)}
PublishedBad(o, T) ==
  \/ SeqToSet(o.pubP) # ProcPaths(T)
  \/ SeqToSet(o.pubS) # StepPaths(T)
  \/ SeqToSet(o.pubT) # ProcPaths(T) \cup StepPaths(T)
  \/ FlowObs(o.pubF) # FlowOf(T)
HierBad(o, T) ==
  \/ SeqToSet(o.hierP) # ProcPaths(T)
  \/ SeqToSet(o.hierS) # StepPaths(T)
  \/ FlowObs(o.hierF) # FlowOf(T)
InvokedBad(e, inv) ==
  {<<x[1], x[2]>> : x \in SeqToSet(e.invoked)} # {<<p, inv[p]>> : p \in DOMAIN inv}
\* the views are taken at the start of the tick: unprimed tree
XOf(T, b) == [k \in DOMAIN T[b] |-> T[b][k].x]
\* a glob port declared {'*': {}} (bare) shows one empty entry per child: -1
VX(e, T, b) == IF e.bare THEN [k \in DOMAIN T[b] |-> 0 - 1] ELSE XOf(T, b)
ViewBad(e, T) ==
  \/ e.dview.agents # VX(e, T, "agents") \/ e.dview.pool # VX(e, T, "pool")
  \/ e.oview.ag # VX(e, T, "agents")
  \/ SeqToSet(e.oview.keys) # {"ag", "g", "out"}
  \/ e.oview.out # <<>>
  \* a plain port wired into compartment agents/a: its variable is seen while
  \* the compartment exists and no longer once it has been deleted or moved away
  \/ (e.watch /\ e.wview # (IF Has(T, "agents", "a") THEN [x |-> T["agents"]["a"].x] ELSE <<>>))

InitTree(ini) ==
  LET T0 == [b \in Branches |->
               [k \in {x[2] : x \in {y \in SeqToSet(ini) : y[1] = b}} |->
                  LET x == CHOOSE y \in SeqToSet(ini) : y[1] = b /\ y[2] = k
                  IN NewComp(x[3], x[4])]]
  IN T0
InitSeq(ini) ==
  LET RECURSIVE F(_)
      F(s) == IF s = <<>> THEN <<>>
              ELSE DeriverSeq(Head(s)[1], Head(s)[2], Head(s)[3]) \o F(Tail(s))
  IN F(ini)

InitFails(e) ==
  LET T == StepPhase(InitTree(e.initial), InitSeq(e.initial)) IN
  (IF TreeShapeBad(e.obs, T) THEN {"tree_shape"} ELSE {})
  \cup (IF TreeXBad(e.obs, T) THEN {"tree_x"} ELSE {})
  \cup (IF TreeCntBad(e.obs, T) THEN {"tree_cnt"} ELSE {})
  \cup (IF BookBad(e.obs, T, InitSeq(e.initial), TRUE) THEN {"book"} ELSE {})
  \cup (IF PublishedBad(e.obs, T) THEN {"published"} ELSE {})
  \cup (IF HierBad(e.obs, T) THEN {"hier"} ELSE {})

TInit ==
  /\ tid \in 1..Len(Traces) /\ l = 2
  /\ LET e == Traces[tid][1] IN
       /\ tree = StepPhase(InitTree(e.initial), InitSeq(e.initial))
       /\ eseq = InitSeq(e.initial)
       /\ origin = [x \in Locs(tree) |-> New]
       /\ invoked = <<>> /\ now = 0 /\ err = FALSE /\ lastop = [op |-> "none"]
       /\ leaves = <<>> /\ seen = <<>> /\ lastmode = "proc"

\* rules broken by a tick record, evaluated on the state after Tick(e.op)
SeenBad(e, sn) ==
  {<<x[1], x[2]>> : x \in SeqToSet(e.seen)} # {<<p, sn[p]>> : p \in DOMAIN sn}
ZViewBad(e, T) ==
  e.zview.agents # VX(e, T, "agents") \/ e.zview.pool # VX(e, T, "pool")

TickFails(e) ==
  IF e.op.op = "addex" THEN (IF e.exc THEN {} ELSE {"not_rejected"})
  ELSE
    (IF e.exc THEN {"exception"} ELSE {})
    \cup (IF TreeShapeBad(e.obs, tree') THEN {"tree_shape"} ELSE {})
    \cup (IF ~e.exc /\ TreeXBad(e.obs, tree') THEN {"tree_x"} ELSE {})
    \cup (IF ~e.exc /\ TreeCntBad(e.obs, tree') THEN {"tree_cnt"} ELSE {})
    \cup (IF OriginBad(e.obs, tree', origin') THEN {"origin"} ELSE {})
    \cup (IF ~e.exc /\ BookBad(e.obs, e.obs.tree, eseq', ~TreeShapeBad(e.obs, tree'))
            THEN {"book"} ELSE {})
    \cup (IF ~e.exc /\ PublishedBad(e.obs, e.obs.tree) THEN {"published"} ELSE {})
    \cup (IF ~e.exc /\ HierBad(e.obs, e.obs.tree) THEN {"hier"} ELSE {})
    \cup (IF ~e.exc /\ ~TreeShapeBad(e.obs, tree') /\ InvokedBad(e, invoked')
            THEN {"invoked"} ELSE {})
    \cup (IF ViewBad(e, tree) THEN {"view"} ELSE {})
    \* the update object the director handed in comes back unmodified
    \cup (IF e.updmut THEN {"update_object"} ELSE {})
    \cup (IF ~e.exc /\ e.obs.leaves # leaves' THEN {"leaves"} ELSE {})
    \* the bystander step (no dependencies, in the layer of the step director, its
    \* path sorting after it) adds 1 at every other invocation, starting with the
    \* constructor's step phase: its ordinary update is applied in the phase it is
    \* computed in, whatever a step earlier in the layer did to the hierarchy
    \cup (IF ~e.exc /\ e.obs.bys # Bys(now') THEN {"bystander"} ELSE {})
    \cup (IF ~e.exc /\ ~TreeShapeBad(e.obs, tree') /\ SeenBad(e, seen') THEN {"seen"} ELSE {})
    \* the watcher step runs in the layer after the step director: it sees the
    \* hierarchy as it is after the structural update
    \cup (IF ~e.exc /\ ~TreeShapeBad(e.obs, tree') /\ ZViewBad(e, tree') THEN {"zview"} ELSE {})

TTick ==
  /\ Normal /\ Ev.ev = "tick"
  /\ IF Ev.mode = "step" THEN TickS(Ev.op) ELSE Tick(Ev.op)
  /\ TickFails(Ev) = {}
  /\ l' = l + 1 /\ UNCHANGED tid

\* the last record: a new engine built from the published composite and the
\* variables-only state, run alongside the original, stays identical to it
TRebuild ==
  /\ Normal /\ Ev.ev = "rebuild" /\ Ev.same /\ Ev.exc = ""
  /\ l' = l + 1 /\ UNCHANGED <<vars, tid>>
DiagnoseRebuild ==
  /\ More /\ DiagL[tid] = l /\ Ev.ev = "rebuild"
  /\ PrintT(<<"DIAG", tid, l, "rebuild", {"rebuild"}>>)
  /\ l' = Len(Tr) + 2 /\ UNCHANGED <<vars, tid>>

\* the first record is checked against the constructed engine
TFirst ==
  /\ l = 2 /\ InitFails(Traces[tid][1]) # {}
  /\ PrintT(<<"DIAG", tid, 1, "init", InitFails(Traces[tid][1])>>)
  /\ l' = Len(Tr) + 3 /\ UNCHANGED <<vars, tid>>

Diagnose ==
  /\ More /\ DiagL[tid] = l /\ Ev.ev = "tick"
  /\ \/ /\ OpOK(tree, Ev.op) /\ ~err /\ now < MaxTicks
        /\ IF Ev.mode = "step" THEN TickS(Ev.op) ELSE Tick(Ev.op)
        /\ PrintT(<<"DIAG", tid, l, "tick", TickFails(Ev)>>)
     \/ /\ ~(OpOK(tree, Ev.op) /\ ~err /\ now < MaxTicks)
        /\ PrintT(<<"DIAG", tid, l, "tick", {"op_not_applicable"}>>)
        /\ UNCHANGED vars
  /\ l' = Len(Tr) + 2 /\ UNCHANGED tid

TNext == (InitFails(Traces[tid][1]) = {} /\ (TTick \/ Diagnose \/ TRebuild \/ DiagnoseRebuild)) \/ TFirst
Mark == TLCSet(2, [TLCGet(2) EXCEPT ![tid] = IF @ < l THEN (IF l > Len(Traces[tid]) + 2 THEN 1 ELSE l) ELSE @])
Post ==
  LET prog == TLCGet(2)
      bad == {t \in 1..Len(Traces) : prog[t] <= Len(Traces[t])}
  IN /\ PrintT(<<"VALIDATED", Len(Traces), "REJECTED", Cardinality(bad)>>)
     /\ \A t \in bad : PrintT(<<"REJ", t, prog[t]>>)
ASSUME TLCSet(2, [t \in 1..Len(Traces) |-> 0])
=============================================================================
