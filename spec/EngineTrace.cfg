INIT TInit
NEXT TNext
CONSTANTS
  Procs = {"p1", "p2", "p3", "p4", "p5", "p6"}
  Steps = {"s1", "s2", "s3", "s4", "s5"}
  Vars = {}
  TS = {}
  Intervals = {}
  MaxCalls = 1000
  Horizon = 100000
  Dev = {}
  SharedW = {}
  Directors = {}
  Spare = {}
CONSTRAINT Mark
POSTCONDITION Post
CHECK_DEADLOCK FALSE
INVARIANTS
  C01_OnTime
  C01_NothingInFlightAtReturn
  C02_TsIsIntervalLength
  C02_CompleteAfterForce
  C03_NoOvershoot
  C03_ReturnExact
  C04_Snapshot
