------------------------------- MODULE Paths -------------------------------
(***************************************************************************)
(* Path algebra of the hierarchy (property C17).                           *)
(*                                                                         *)
(* A tree is a prefix-closed set of paths (sequences of keys) containing   *)
(* the empty path (the root).  ".." is the parent step.  The definitions   *)
(* are written from the file-system reading of the property, not from the  *)
(* code: Normalize is lexical resolution, Walk is navigation.              *)
(*                                                                         *)
(* A dictionary is [dn: set of paths of its dictionary nodes (prefix       *)
(* closed, contains <<>>), lf: function from leaf paths to values].        *)
(***************************************************************************)
EXTENDS Naturals, Sequences, FiniteSets, TLC, Json, IOUtils, SequencesExt, FiniteSetsExt

CONSTANTS Keys,      \* e.g. {"a", "b"}
          TreeDepth, \* depth of the enumerated trees
          PathLen,   \* maximal length of enumerated relative paths
          Vals       \* leaf values of dictionaries

UP == ".."
UNDEF == <<"UNDEF">>

Front1(p) == SubSeq(p, 1, Len(p) - 1)

RECURSIVE NormAcc(_, _)
NormAcc(p, acc) ==
  IF p = <<>> THEN acc
  ELSE IF Head(p) = UP /\ acc # <<>> /\ Last(acc) # UP
         THEN NormAcc(Tail(p), Front1(acc))
         ELSE NormAcc(Tail(p), Append(acc, Head(p)))
Normalize(p) == NormAcc(p, <<>>)

\* navigation: UNDEF when a step leaves the tree
RECURSIVE Walk(_, _, _)
Walk(T, from, p) ==
  IF p = <<>> THEN from
  ELSE IF Head(p) = UP
         THEN IF from = <<>> THEN UNDEF ELSE Walk(T, Front1(from), Tail(p))
         ELSE IF Append(from, Head(p)) \in T
                THEN Walk(T, Append(from, Head(p)), Tail(p))
                ELSE UNDEF

RECURSIVE CommonLen(_, _)
CommonLen(a, b) ==
  IF a = <<>> \/ b = <<>> \/ Head(a) # Head(b) THEN 0
  ELSE 1 + CommonLen(Tail(a), Tail(b))
PathTo(a, b) ==
  LET k == CommonLen(a, b)
  IN [i \in 1..(Len(a) - k) |-> UP] \o SubSeq(b, k + 1, Len(b))

-----------------------------------------------------------------------------
(* enumeration of trees and paths                                          *)

SeqsUpTo(S, n) == UNION {[1..k -> S] : k \in 0..n}
NodeUniverse == SeqsUpTo(Keys, TreeDepth) \ {<<>>}
PrefixClosed(T) == \A p \in T : Len(p) = 1 \/ Front1(p) \in T
Trees == {T \cup {<<>>} : T \in {X \in SUBSET NodeUniverse : PrefixClosed(X)}}
RelPaths == SeqsUpTo(Keys \cup {UP}, PathLen)

\* one table entry per tree
WalkRows(T) ==
  {<<from, p, Walk(T, from, p), Normalize(from \o p)>> : from \in T, p \in RelPaths}
PathToRows(T) == {<<a, b, PathTo(a, b)>> : a \in T, b \in T}

-----------------------------------------------------------------------------
(* dictionaries                                                            *)

DU == SeqsUpTo(Keys, 2) \ {<<>>}       \* positions of enumerated dictionaries
DictOK(DN, LF) ==
  /\ DN \cap LF = {}
  /\ \A p \in DN \cup LF : Len(p) = 1 \/ Front1(p) \in DN
Dicts ==
  UNION {{[dn |-> DN \cup {<<>>}, lf |-> f] : f \in [LF -> Vals]} :
           <<DN, LF>> \in {x \in (SUBSET DU) \X (SUBSET DU) : DictOK(x[1], x[2])}}
DictPaths == SeqsUpTo(Keys, 3)

IsPrefix2(p, q) == Len(p) <= Len(q) /\ SubSeq(q, 1, Len(p)) = p
ProperPrefixes(p) == {SubSeq(p, 1, k) : k \in 0..(Len(p) - 1)}
Strip(p, q) == SubSeq(q, Len(p) + 1, Len(q))

\* the path runs through a leaf: nothing is there to read or to delete (get_in
\* gives the default, delete_in changes nothing); writing through a leaf
\* (assoc_path, update_in) is outside the domain
ThroughLeaf(D, p) == \E q \in ProperPrefixes(p) : q \in DOMAIN D.lf

SubDict(D, p) ==
  [dn |-> {Strip(p, q) : q \in {x \in D.dn : IsPrefix2(p, x)}},
   lf |-> [r \in {Strip(p, q) : q \in {x \in DOMAIN D.lf : IsPrefix2(p, x)}} |-> D.lf[p \o r]]]

\* get_in: [kind, ...]
GetIn(D, p) ==
  IF p \in D.dn THEN [kind |-> "dict", d |-> SubDict(D, p)]
  ELSE IF p \in DOMAIN D.lf THEN [kind |-> "leaf", v |-> D.lf[p]]
  ELSE [kind |-> "default"]

Below(D, p) == {q \in D.dn \cup DOMAIN D.lf : IsPrefix2(p, q)}

\* assoc_path with a leaf value (p non-empty)
AssocLeaf(D, p, v) ==
  LET keepdn == (D.dn \ Below(D, p)) \cup ProperPrefixes(p)
      keeplf == (DOMAIN D.lf \ Below(D, p)) \cup {p}
  IN [dn |-> keepdn,
      lf |-> [q \in keeplf |-> IF q = p THEN v ELSE D.lf[q]]]

DeleteIn(D, p) ==
  IF p = <<>> THEN D
  ELSE [dn |-> D.dn \ Below(D, p),
        lf |-> [q \in DOMAIN D.lf \ Below(D, p) |-> D.lf[q]]]

LeafRows(D) == {<<q, D.lf[q]>> : q \in DOMAIN D.lf}
\* the dictionary rebuilt from its leaf enumeration (empty sub-dictionaries
\* are not leaves and are not rebuilt)
FromLeaves(D) ==
  [dn |-> {<<>>} \cup UNION {ProperPrefixes(q) : q \in DOMAIN D.lf}, lf |-> D.lf]

DictRows(D) ==
  {[p |-> p,
    through |-> ThroughLeaf(D, p),
    get |-> GetIn(D, p),
    assoc |-> IF p = <<>> \/ ThroughLeaf(D, p) THEN D ELSE AssocLeaf(D, p, 9),
    del |-> DeleteIn(D, p)] : p \in DictPaths}

-----------------------------------------------------------------------------
(* the model: one state per table entry; the laws are invariants           *)

VARIABLE c
Init == \/ \E T \in Trees : c = [kind |-> "tree", tree |-> T]
        \/ \E D \in Dicts : c = [kind |-> "dict", d |-> D]
Next == UNCHANGED c

\* walking reaches the node named by the lexical normal form
LawWalkIsNormalize ==
  c.kind = "tree" =>
    \A from \in c.tree, p \in RelPaths :
       LET w == Walk(c.tree, from, p)
       IN w # UNDEF => (w = Normalize(from \o p) /\ w \in c.tree)
\* conversely: a normal form inside the tree whose walk never leaves the
\* tree is reached (normal forms are a fixed point)
LawNormalizeIdempotent ==
  c.kind = "tree" =>
    \A from \in c.tree, p \in RelPaths :
       Normalize(Normalize(from \o p)) = Normalize(from \o p)
LawPathTo ==
  c.kind = "tree" =>
    \A a \in c.tree, b \in c.tree : Walk(c.tree, a, PathTo(a, b)) = b
LawPathFor ==
  c.kind = "tree" => \A n \in c.tree : Walk(c.tree, <<>>, n) = n

\* Moving a subtree (re-parenting node src under the key "z" of node dst): every
\* node below src is afterwards found at dst \o <<"z">> \o (its path below src),
\* every other node where it was; path_for, walking and path_to hold on the
\* moved tree like on any other tree (nothing remembers the old place)
MovedPath(p, src, dst) ==
  IF Len(src) <= Len(p) /\ SubSeq(p, 1, Len(src)) = src
    THEN dst \o <<"z">> \o SubSeq(p, Len(src) + 1, Len(p)) ELSE p
Moved(T, src, dst) == {MovedPath(p, src, dst) : p \in T}
MovePairs(T) == {m \in T \X T : /\ Len(m[1]) = 1 /\ Len(m[2]) = 1 /\ m[1] # m[2]}
LawMoveKeepsTheAlgebra ==
  c.kind = "tree" =>
    \A m \in MovePairs(c.tree) :
       LET M == Moved(c.tree, m[1], m[2]) IN
         /\ \A n \in M : Walk(M, <<>>, n) = n
         /\ \A a \in M, b \in M : Walk(M, a, PathTo(a, b)) = b
         /\ Cardinality(M) = Cardinality(c.tree)

LawGetAssoc ==
  c.kind = "dict" =>
    \A p \in DictPaths \ {<<>>} :
       ~ThroughLeaf(c.d, p) =>
          /\ GetIn(AssocLeaf(c.d, p, 9), p) = [kind |-> "leaf", v |-> 9]
          \* nothing outside p changes
          /\ \A q \in DictPaths :
               (~IsPrefix2(p, q) /\ ~IsPrefix2(q, p)) =>
                  GetIn(AssocLeaf(c.d, p, 9), q) = GetIn(c.d, q)
LawDelete ==
  c.kind = "dict" =>
    \A p \in DictPaths \ {<<>>} :
       ~ThroughLeaf(c.d, p) =>
          /\ GetIn(DeleteIn(c.d, p), p) = [kind |-> "default"]
          /\ \A q \in DictPaths :
               (~IsPrefix2(p, q) /\ ~IsPrefix2(q, p)) =>
                  GetIn(DeleteIn(c.d, p), q) = GetIn(c.d, q)
LawLeafRoundTrip ==
  c.kind = "dict" =>
     LET R == FromLeaves(c.d) IN
       /\ R.lf = c.d.lf
       /\ FromLeaves(R) = R

Entry(x) ==
  IF x.kind = "tree"
    THEN [kind |-> "tree", tree |-> x.tree, walk |-> WalkRows(x.tree),
          pathto |-> PathToRows(x.tree)]
    ELSE [kind |-> "dict", dn |-> x.d.dn, lf |-> LeafRows(x.d),
          rows |-> {[p |-> r.p, through |-> r.through, get |-> r.get.kind,
                     getv |-> IF r.get.kind = "leaf" THEN r.get.v ELSE 0,
                     getdn |-> IF r.get.kind = "dict" THEN r.get.d.dn ELSE {},
                     getlf |-> IF r.get.kind = "dict" THEN LeafRows(r.get.d) ELSE {},
                     assocdn |-> r.assoc.dn, assoclf |-> LeafRows(r.assoc),
                     deldn |-> r.del.dn, dellf |-> LeafRows(r.del)] : r \in DictRows(x.d)}]

Export ==
  /\ TLCGet("stats").generated >= 0
  /\ JsonSerialize(IOEnv.OUT_FILE,
        SetToSeq({Entry([kind |-> "tree", tree |-> T]) : T \in Trees}
                 \cup {Entry([kind |-> "dict", d |-> D]) : D \in Dicts}))
=============================================================================
