---------------------------- MODULE MC_Engine ----------------------------
EXTENDS Engine
CONSTANTS InitLive, InitSteps, InitDeps, InitSeq, EmitStep

NoDeps == <<>>
NoSeq  == <<>>
EmptySet == {}

MCInit == InitWith(InitLive,
                   [v \in Vars |-> 0],
                   InitSteps, InitDeps, InitSeq, EmitStep, 0)
MCSpec == MCInit /\ [][Next]_vars /\ Fairness
=============================================================================
