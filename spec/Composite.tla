------------------------------ MODULE Composite ------------------------------
(***************************************************************************)
(* Composites (property C16).  A composite is five maps from hierarchy     *)
(* paths to atoms (processes, steps, flow, topology, state).  Composite    *)
(* objects live in a heap `objs`; generating embeds a template under a     *)
(* path, merging adds the entries of another composite or of loose         *)
(* dictionaries under a path (later entries win on equal keys).  Merging   *)
(* copies: no action on one object ever changes another one.               *)
(***************************************************************************)
EXTENDS Naturals, Sequences, FiniteSets, TLC

CONSTANTS MaxObjs, MaxSteps

Parts == {"processes", "steps", "flow", "topology", "state"}
EmptyC == [p \in Parts |-> <<>>]

\* templates: part -> (path -> atom)
TplA == [processes |-> (<<"p1">> :> "A.p1"),
         steps     |-> <<>>,
         flow      |-> <<>>,
         topology  |-> (<<"p1">> :> "A.p1.topo"),
         state     |-> <<>>]
TplB == [processes |-> (<<"q", "p2">> :> "B.p2"),
         steps     |-> (<<"s1">> :> "B.s1"),
         flow      |-> (<<"s1">> :> "B.s1.flow"),
         topology  |-> (<<"q", "p2">> :> "B.p2.topo") @@ (<<"s1">> :> "B.s1.topo"),
         state     |-> <<>>]
Tpl(t) == IF t = "A" THEN TplA ELSE TplB
\* loose entries: a process and a step nested under "agents" with their
\* topology, the step's flow entry, and state
Loose(n) == [processes |-> (<<"agents", n>> :> ("L." \o n)),
             steps     |-> (<<"agents", n \o "s">> :> ("LS." \o n)),
             flow      |-> (<<"agents", n \o "s">> :> ("LS." \o n \o ".flow")),
             topology  |-> (<<"agents", n>> :> ("L." \o n \o ".topo"))
                           @@ (<<"agents", n \o "s">> :> ("LS." \o n \o ".topo")),
             state     |-> (<<"agents", "st", n>> :> ("L." \o n \o ".state"))]

\* loose entries nested under "q", a key that template B also nests under
LooseQ(n) == [processes |-> (<<"q", n>> :> ("LQ." \o n)),
              steps     |-> <<>>,
              flow      |-> <<>>,
              topology  |-> (<<"q", n>> :> ("LQ." \o n \o ".topo")),
              state     |-> (<<"q", "st", n>> :> ("LQ." \o n \o ".state"))]

EmbedPaths == {<<>>, <<"x">>, <<"x", "y">>}
Prefix(path, f) == [q \in {path \o p : p \in DOMAIN f} |->
                      f[SubSeq(q, Len(path) + 1, Len(q))]]
Embed(cmp, path) == [p \in Parts |-> Prefix(path, cmp[p])]
Union(f, g) == [q \in DOMAIN f \cup DOMAIN g |-> IF q \in DOMAIN g THEN g[q] ELSE f[q]]
MergeC(t, src, path) == [p \in Parts |-> Union(t[p], Prefix(path, src[p]))]

VARIABLES objs, steps, last
vars == <<objs, steps, last>>

Init == objs = <<>> /\ steps = 0 /\ last = [a |-> "init"]

Generate(t, path) ==
  /\ Len(objs) < MaxObjs /\ steps < MaxSteps
  /\ objs' = Append(objs, Embed(Tpl(t), path))
  /\ steps' = steps + 1 /\ last' = [a |-> "gen", t |-> t, path |-> path]
MergeComposite(i, j, path) ==
  /\ steps < MaxSteps /\ i \in DOMAIN objs /\ j \in DOMAIN objs /\ i # j
  /\ objs' = [objs EXCEPT ![i] = MergeC(objs[i], objs[j], path)]
  /\ steps' = steps + 1 /\ last' = [a |-> "merge", i |-> i, j |-> j, path |-> path]
MergeLoose(i, n, path) ==
  /\ steps < MaxSteps /\ i \in DOMAIN objs
  /\ objs' = [objs EXCEPT ![i] = MergeC(objs[i], Loose(n), path)]
  /\ steps' = steps + 1 /\ last' = [a |-> "loose", i |-> i, n |-> n, path |-> path]

\* a composite and loose parts in one call: the loose parts are merged over the
\* composite's (later entries win), the result under the path into the target
MergeBoth(i, j, n, path) ==
  /\ steps < MaxSteps /\ i \in DOMAIN objs /\ j \in DOMAIN objs /\ i # j
  /\ objs' = [objs EXCEPT ![i] = MergeC(objs[i], MergeC(objs[j], LooseQ(n), <<>>), path)]
  /\ steps' = steps + 1 /\ last' = [a |-> "both", i |-> i, j |-> j, n |-> n, path |-> path]

\* loading a composite back from the store generated from it (either entry
\* point: get_composite_from_store, Composite(store=...)) gives a new object with
\* the same processes, steps, flow and topology; its state is the full state of
\* the store, which this model does not describe (projected away: <<>>)
Reload(i) ==
  /\ Len(objs) < MaxObjs /\ steps < MaxSteps /\ i \in DOMAIN objs
  /\ objs' = Append(objs, [objs[i] EXCEPT !.state = <<>>])
  /\ steps' = steps + 1 /\ last' = [a |-> "reload", i |-> i]

\* an engine is built from a composite (Engine(composite=...)) together with an
\* engine initial state that names the stores the composite's own state names, and
\* runs: the composite is a template - no object changes
Run(i) ==
  /\ steps < MaxSteps /\ i \in DOMAIN objs
  /\ UNCHANGED objs
  /\ steps' = steps + 1 /\ last' = [a |-> "run", i |-> i]

Next ==
  \/ \E i \in DOMAIN objs : Reload(i)
  \/ \E i \in DOMAIN objs : Run(i)
  \/ \E i, j \in DOMAIN objs, n \in {"n1"}, path \in {<<>>, <<"x">>} : MergeBoth(i, j, n, path)
  \/ \E t \in {"A", "B"}, path \in EmbedPaths : Generate(t, path)
  \/ \E i, j \in DOMAIN objs, path \in EmbedPaths : MergeComposite(i, j, path)
  \/ \E i \in DOMAIN objs, n \in {"n1", "n2"}, path \in {<<>>, <<"x">>} : MergeLoose(i, n, path)
Spec == Init /\ [][Next]_vars

\* C16: a merge changes only its target - the merged-in composite (and every
\* other object) is unchanged, then and later
C16_OnlyTargetChanges ==
  [][\A k \in DOMAIN objs :
        (last'.a \in {"merge", "loose", "both"} /\ k # last'.i) => objs'[k] = objs[k]]_vars
\* C16: the merge result is the union under the path, later entries winning
C16_MergeIsUnion ==
  [][last'.a = "merge" =>
       \A p \in Parts :
          /\ DOMAIN objs'[last'.i][p] =
               DOMAIN objs[last'.i][p] \cup {last'.path \o q : q \in DOMAIN objs[last'.j][p]}
          /\ \A q \in DOMAIN objs[last'.j][p] :
               objs'[last'.i][p][last'.path \o q] = objs[last'.j][p][q]]_vars
\* C16: loading back from the generated store loses and invents nothing and
\* leaves every existing object alone
C16_ReloadSame ==
  [][last'.a = "reload" =>
       /\ \A p \in Parts \ {"state"} : objs'[Len(objs')][p] = objs[last'.i][p]
       /\ \A k \in DOMAIN objs : objs'[k] = objs[k]]_vars
\* C16: an engine built from a composite leaves the template (and every other
\* object) alone
C16_RunLeavesTemplate == [][last'.a = "run" => objs' = objs]_vars
\* C16: a generated composite holds everything under its path
C16_EmbeddedUnderPath ==
  [][last'.a = "gen" =>
       \A p \in Parts : \A q \in DOMAIN objs'[Len(objs')][p] :
          SubSeq(q, 1, Len(last'.path)) = last'.path]_vars
=============================================================================
