INIT TInit
NEXT TNext
CONSTANTS
  MaxObjs = 100
  MaxSteps = 100
CONSTRAINT Mark
POSTCONDITION Post
CHECK_DEADLOCK FALSE
