----------------------------- MODULE Timeseries -----------------------------
(***************************************************************************)
(* Views of emitted data (property C18).  Raw data is a sequence of rows,  *)
(* one per emitted time, each giving a value to every variable (leaf path) *)
(* of a fixed shape.  Values are atoms; the atoms include the falsy values *)
(* that must survive queries.  A variable holds either plain atoms or      *)
(* quantities (whose timeseries key carries the unit).                     *)
(***************************************************************************)
EXTENDS Naturals, Sequences, FiniteSets, TLC, Json, IOUtils, SequencesExt, FiniteSetsExt

CONSTANTS MaxVars, MaxTimes

\* universe of variable paths (no path a prefix of another)
LeafPaths == {<<"a">>, <<"b">>, <<"c", "a">>, <<"c", "b">>}
\* paths that may be queried: leaves, a branch, a missing path
\* (<<"a", "z">>: below a leaf when "a" is a variable - nothing is there)
QueryPaths == {<<"a">>, <<"c">>, <<"c", "b">>, <<"z">>, <<"a", "z">>}

\* (None: a value like any other once it has been emitted)
Plain == {"Zero", "False", "EmptyStr", "EmptyList", "One", "None"}
Qty   == {"QZero", "QOne"}
\* quantities without a physical dimension that still carry a scale (mm/m):
\* their key carries the unit like any other quantity's
Ratio == {"RZero", "ROne"}

IsPrefixOf(p, q) == Len(p) <= Len(q) /\ SubSeq(q, 1, Len(p)) = p

Shapes == {S \in SUBSET LeafPaths : Cardinality(S) >= 1 /\ Cardinality(S) <= MaxVars}
Kinds(S) == [S -> {"plain", "qty", "ratio"}]
AtomsOf(k) == CASE k = "qty" -> Qty [] k = "ratio" -> Ratio [] OTHER -> Plain
Cells(S, K) == {f \in [S -> Plain \cup Qty \cup Ratio] : \A p \in S : f[p] \in AtomsOf(K[p])}
Cases ==
  UNION {UNION {UNION {{[shape |-> S, kind |-> K, n |-> n, cell |-> cs] :
                           cs \in [1..n -> Cells(S, K)]} : n \in 1..MaxTimes} :
                 K \in Kinds(S)} : S \in Shapes}

\* the timeseries of one variable: its values in time order
Series(cs, p) == [i \in 1..cs.n |-> cs.cell[i][p]]
\* what a query returns at time i: every variable at or below a queried path
Matched(cs, Q) == {p \in cs.shape : \E q \in Q : IsPrefixOf(q, p)}
QueryAt(cs, Q, i) == {<<p, cs.cell[i][p]>> : p \in Matched(cs, Q)}
Queries == {Q \in SUBSET QueryPaths : Cardinality(Q) >= 1 /\ Cardinality(Q) <= 2}

VARIABLE c
Init == c \in Cases
Next == UNCHANGED c

\* each list is aligned one-to-one with the time vector
LawAligned == \A p \in c.shape : Len(Series(c, p)) = c.n
\* reading the timeseries back cell by cell gives the raw data
LawReadBack == \A p \in c.shape, i \in 1..c.n : Series(c, p)[i] = c.cell[i][p]
\* a query returns the queried variables whatever their values are
LawQueryKeepsEverything ==
  \A Q \in Queries, i \in 1..c.n :
     {r[1] : r \in QueryAt(c, Q, i)} = Matched(c, Q)

Entry(cs) ==
  [n |-> cs.n,
   vars |-> {[p |-> p, qty |-> cs.kind[p] # "plain", kind |-> cs.kind[p],
              vals |-> Series(cs, p)] : p \in cs.shape},
   queries |-> {[q |-> Q, res |-> [i \in 1..cs.n |-> QueryAt(cs, Q, i)]] : Q \in Queries}]

Export ==
  /\ TLCGet("stats").generated >= 0
  /\ JsonSerialize(IOEnv.OUT_FILE, SetToSeq({Entry(cs) : cs \in Cases}))
=============================================================================
