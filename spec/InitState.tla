------------------------------ MODULE InitState ------------------------------
(***************************************************************************)
(* Initial state of a hierarchy (property C15), on top of Topology.tla.    *)
(*                                                                         *)
(* Every declared variable exists at the node R names and holds the value  *)
(* given for that node in the initial state if there is one ("I"), and the *)
(* declared default otherwise ("D").  Declarations of one variable by two  *)
(* processes are merged; they are incompatible - construction must fail -  *)
(* exactly when both give a value, a unit or a serializer and these differ.*)
(***************************************************************************)
EXTENDS Topology

Builds(cs) ==
  {[given |-> G, vals |-> {<<n, IF n \in G THEN "I" ELSE "D">> : n \in Nodes(cs)}] :
      G \in SUBSET Nodes(cs)}

\* every declared node is built, with one of the two admissible values
LawEveryNodeBuilt ==
  \A b \in Builds(c) : {r[1] : r \in b.vals} = Nodes(c)
LawExplicitWins ==
  \A b \in Builds(c) : \A r \in b.vals : (r[2] = "I") = (r[1] \in b.given)

\* ---- declarations of one variable by two processes
Attr == {"none", "one", "two"}
Decls == [val : Attr, units : Attr, ser : Attr]
Mixed(d) == d.units # "none" /\ d.ser # "none"
Pairs == {p \in Decls \X Decls :
            ~(\E i \in 1..2 : p[i].units # "none") \/ ~(\E i \in 1..2 : p[i].ser # "none")}
Clash(a, b) == a # "none" /\ b # "none" /\ a # b
Compatible(p) == ~Clash(p[1].val, p[2].val) /\ ~Clash(p[1].units, p[2].units)
                 /\ ~Clash(p[1].ser, p[2].ser)
Pick(a, b) == IF a # "none" THEN a ELSE b
Merged(p) == [val |-> Pick(p[1].val, p[2].val), units |-> Pick(p[1].units, p[2].units),
              ser |-> Pick(p[1].ser, p[2].ser)]
LawMergeSymmetric == \A p \in Pairs : Compatible(p) = Compatible(<<p[2], p[1]>>)

EntryI(cs) ==
  [loc |-> Entry(cs).loc, ports |-> Entry(cs).ports, vars |-> Entry(cs).vars,
   builds |-> Builds(cs)]

ExportInit ==
  /\ TLCGet("stats").generated >= 0
  /\ JsonSerialize(IOEnv.OUT_FILE,
       [cases |-> SetToSeq({EntryI(cs) : cs \in Cases}),
        pairs |-> SetToSeq({[a |-> p[1], b |-> p[2], ok |-> Compatible(p), merged |-> Merged(p)] :
                              p \in Pairs})])
=============================================================================
