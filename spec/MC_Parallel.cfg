SPECIFICATION Spec
CONSTANTS
  Workers = {"w1", "w2"}
  Dev = {}
  MaxCmds = 4
CHECK_DEADLOCK FALSE
INVARIANTS
  TypeOK
  C13_NoSendWhilePending
  C13_NoUseAfterEnd
  C13_NoSpuriousRecv
  C13_EndedMeansExited
PROPERTIES
  C13_EndTerminates
  C13_RecvReturns
