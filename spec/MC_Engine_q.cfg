SPECIFICATION MCSpec
CONSTANTS
  Procs = {"p1", "p2"}
  Steps = {}
  Vars = {"p1", "p2", "s"}
  TS = {1, 2, 3}
  Intervals = {1, 2, 3}
  MaxCalls = 3
  Horizon = 5
  EmitStep = 1
  Dev = {}
  SharedW = {"p1", "p2"}
  Directors = {}
  Spare = {}
  InitLive = {"p1", "p2"}
  InitSteps = {}
  InitDeps <- NoDeps
  InitSeq <- NoSeq
INVARIANTS
  TypeOK
  C01_OnTime
  C01_NothingInFlightAtReturn
  C01_Ledger
  C02_TsIsIntervalLength
  C02_SumIsElapsed
  C02_CompleteAfterForce
  C03_NoOvershoot
  C03_ReturnExact
  C04_Snapshot
PROPERTIES
  C01_ApplyConsumes
  C01_OnlyApplyChangesState
  C02_Contiguous
  C03_Monotone
  C03_Progress
  C03_Terminates
  C04_NoCommitWhilePolling
  C12_RowAfterSteps
  C12_RowAtNow
CHECK_DEADLOCK FALSE
