--------------------------- MODULE CompositeTrace ---------------------------
(* Trace validation of merge histories of real Composite objects.           *)
EXTENDS Composite, Json, IOUtils, TLCExt

File   == JsonDeserialize(IOEnv.TRACE_FILE)
Traces == File.traces
DiagL  == File.diag
VARIABLES tid, l
tvars == <<vars, tid, l>>
Tr == Traces[tid]
Ev == Tr[l]
More == l <= Len(Tr)
Normal == More /\ (DiagL[tid] = 0 \/ l < DiagL[tid])
SeqToSet(s) == {s[i] : i \in 1..Len(s)}

\* observed part: sequence of <<path, atom>>
ObsPart(o) == {<<x[1], x[2]>> : x \in SeqToSet(o)}
SpecPart(f) == {<<q, f[q]>> : q \in DOMAIN f}
ObjBad(o, cmp) == \E p \in Parts : ObsPart(o[p]) # SpecPart(cmp[p])

Act(e) ==
  CASE e.a = "gen"   -> Generate(e.t, e.path)
    [] e.a = "merge" -> MergeComposite(e.i, e.j, e.path)
    [] e.a = "loose" -> MergeLoose(e.i, e.n, e.path)
    [] e.a = "both"  -> MergeBoth(e.i, e.j, e.n, e.path)
    [] e.a = "reload" -> Reload(e.i)
    [] e.a = "run" -> Run(e.i)

Target(e) == IF e.a \in {"gen", "reload"} THEN Len(objs') ELSE e.i
Fails(e) ==
  (IF Len(e.objs) # Len(objs') THEN {"count"} ELSE
     (IF ObjBad(e.objs[Target(e)], objs'[Target(e)]) THEN {"target"} ELSE {})
     \cup (IF \E k \in DOMAIN objs' : k # Target(e) /\ ObjBad(e.objs[k], objs'[k])
             THEN {"others"} ELSE {}))
  \cup (IF e.exc THEN {"exception"} ELSE {})

TInit == tid \in 1..Len(Traces) /\ l = 1 /\ Init
TStep == /\ Normal /\ Act(Ev) /\ Fails(Ev) = {} /\ l' = l + 1 /\ UNCHANGED tid
Diagnose ==
  /\ More /\ DiagL[tid] = l /\ Act(Ev)
  /\ PrintT(<<"DIAG", tid, l, "act", Fails(Ev)>>)
  /\ l' = Len(Tr) + 2 /\ UNCHANGED tid
TNext == TStep \/ Diagnose
Mark == TLCSet(2, [TLCGet(2) EXCEPT ![tid] = IF @ < l THEN l ELSE @])
Post ==
  LET prog == TLCGet(2)
      bad == {t \in 1..Len(Traces) : prog[t] <= Len(Traces[t])}
  IN /\ PrintT(<<"VALIDATED", Len(Traces), "REJECTED", Cardinality(bad)>>)
     /\ \A t \in bad : PrintT(<<"REJ", t, prog[t]>>)
ASSUME TLCSet(2, [t \in 1..Len(Traces) |-> 0])
=============================================================================
