------------------------------ MODULE Serialize ------------------------------
(***************************************************************************)
(* serialize_value / deserialize_value (property C14) over abstract value  *)
(* trees.  Leaves are classes of values (the harness binds every class to  *)
(* concrete witnesses); containers are lists, tuples, sets and             *)
(* dictionaries (string keys, or a non-string key).                        *)
(*                                                                         *)
(* Serialized forms: "ustr" is a string of the form !units[...] (the       *)
(* class of the quantity it encodes is remembered), "pstr" / "fstr" are    *)
(* the strings standing for processes and functions.                       *)
(***************************************************************************)
EXTENDS Naturals, Sequences, FiniteSets, TLC, Json, IOUtils, SequencesExt, FiniteSetsExt

CONSTANTS Depth2   \* TRUE: also containers holding one container

Plains == {"num", "str", "bool", "none"}
\* (qarr, qarr2: array-valued quantities of one and of two dimensions;
\*  nparr2: a plain array of two dimensions, in whatever memory order)
Leaves == Plains \cup {"npscalar", "nparr", "qfin", "qnan", "qinf", "unit", "proc",
                       "func", "unsup", "qarr", "qarr2", "nparr2"}
L(t) == [t |-> t, kids |-> <<>>, q |-> "-"]
ERR == L("ERR")
ListOf(a, b) == [t |-> "list", kids |-> <<a, b>>, q |-> "-"]
UStr(q) == [t |-> "ustr", kids |-> <<>>, q |-> q]

RECURSIVE Ser(_)
Ser(v) ==
  CASE v.t \in Plains -> v
    [] v.t \in {"ustr", "pstr", "fstr"} -> v          \* already serialized: strings
    [] v.t = "npscalar" -> L("num")
    [] v.t = "nparr" -> [t |-> "list", kids |-> <<L("num"), L("num")>>, q |-> "-"]
    [] v.t = "nparr2" -> ListOf(ListOf(L("num"), L("num")), ListOf(L("num"), L("num")))
    [] v.t \in {"qfin", "qnan", "qinf", "unit"} -> [t |-> "ustr", kids |-> <<>>, q |-> v.t]
    \* an array-valued quantity: one string per element, nested like the array
    [] v.t = "qarr" -> ListOf(UStr("qfin"), UStr("qfin"))
    [] v.t = "qarr2" -> ListOf(ListOf(UStr("qfin"), UStr("qfin")), ListOf(UStr("qfin"), UStr("qfin")))
    [] v.t = "proc" -> L("pstr")
    [] v.t = "func" -> L("fstr")
    [] v.t = "unsup" -> ERR
    [] v.t = "dictbad" -> ERR                            \* a non-string key
    [] v.t \in {"list", "tuple", "set", "dict"} ->
         LET ks == [i \in DOMAIN v.kids |-> Ser(v.kids[i])]
         IN IF \E i \in DOMAIN ks : ks[i] = ERR THEN ERR
            ELSE [t |-> IF v.t = "dict" THEN "dict" ELSE "list", kids |-> ks, q |-> "-"]

RECURSIVE Plain(_)
Plain(x) ==
  \/ x.t \in Plains \cup {"ustr", "pstr", "fstr"}
  \/ (x.t \in {"list", "dict"} /\ \A i \in DOMAIN x.kids : Plain(x.kids[i]))

RECURSIVE Deser(_)
Deser(x) ==
  CASE x.t = "ustr" -> L(IF x.q = "unit" THEN "qone" ELSE x.q)
    [] x.t \in {"list", "dict"} ->
         [t |-> x.t, kids |-> [i \in DOMAIN x.kids |-> Deser(x.kids[i])], q |-> "-"]
    [] OTHER -> x

\* what a value looks like after a round trip
RECURSIVE Canon(_)
Canon(v) ==
  CASE v.t = "npscalar" -> L("num")
    [] v.t = "nparr" -> [t |-> "list", kids |-> <<L("num"), L("num")>>, q |-> "-"]
    [] v.t = "nparr2" -> ListOf(ListOf(L("num"), L("num")), ListOf(L("num"), L("num")))
    [] v.t = "unit" -> L("qone")
    [] v.t = "qarr" -> ListOf(L("qfin"), L("qfin"))
    [] v.t = "qarr2" -> ListOf(ListOf(L("qfin"), L("qfin")), ListOf(L("qfin"), L("qfin")))
    [] v.t = "proc" -> L("pstr")
    [] v.t = "func" -> L("fstr")
    [] v.t \in {"list", "tuple", "set", "dict"} ->
         [t |-> IF v.t = "dict" THEN "dict" ELSE "list",
          kids |-> [i \in DOMAIN v.kids |-> Canon(v.kids[i])], q |-> "-"]
    [] OTHER -> v

RECURSIVE HasBad(_)
HasBad(v) == v.t \in {"unsup", "dictbad"} \/ \E i \in DOMAIN v.kids : HasBad(v.kids[i])
RECURSIVE OnlyBuiltin(_)
OnlyBuiltin(v) == v.t \in Plains \/ (v.t \in {"list", "dict"} /\ \A i \in DOMAIN v.kids : OnlyBuiltin(v.kids[i]))

\* ---- enumeration
LeafVals == {L(t) : t \in Leaves}
Hashable == {L("num"), L("str")}
KidSeqs(S) == {<<>>} \cup {<<a>> : a \in S} \cup {<<a, b>> : a \in S, b \in S}
Containers(S) ==
  {[t |-> c, kids |-> ks, q |-> "-"] : c \in {"list", "tuple", "dict", "dictbad"}, ks \in KidSeqs(S)}
  \cup {[t |-> "set", kids |-> ks, q |-> "-"] : ks \in KidSeqs(Hashable)}
D1 == Containers(LeafVals)
D2 == {[t |-> c, kids |-> ks, q |-> "-"] :
         c \in {"list", "tuple", "dict"},
         ks \in {<<a>> : a \in D1} \cup {<<a, b>> : a \in D1, b \in {L("num"), L("qfin")}}}
Trees == LeafVals \cup D1 \cup (IF Depth2 THEN D2 ELSE {})

VARIABLE c
Init == c \in Trees
Next == UNCHANGED c

LawErrorIffBad   == (Ser(c) = ERR) = HasBad(c)
LawPlain         == Ser(c) # ERR => Plain(Ser(c))
LawIdempotent    == Ser(c) # ERR => Ser(Ser(c)) = Ser(c)
LawRoundTrip     == Ser(c) # ERR => Deser(Ser(c)) = Canon(c)
LawPlainUnchanged == OnlyBuiltin(c) => (Ser(c) = c /\ Deser(c) = c)

Export ==
  /\ TLCGet("stats").generated >= 0
  /\ JsonSerialize(IOEnv.OUT_FILE,
       SetToSeq({[v |-> v, ser |-> Ser(v),
                  back |-> IF Ser(v) = ERR THEN ERR ELSE Deser(Ser(v))] : v \in Trees}))
=============================================================================
