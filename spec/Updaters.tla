------------------------------ MODULE Updaters ------------------------------
(***************************************************************************)
(* Updaters (property C08): how an update is combined with the current     *)
(* value of a variable.  Written from the documentation of the updaters.   *)
(*                                                                         *)
(* Scalars are small integers (the harness instantiates them with several  *)
(* homomorphic carriers: int, float, numpy array, quantity).  Dictionary   *)
(* values are functions from keys to entries [t |-> "i", v |-> int] or     *)
(* [t |-> "d", d |-> function from keys to integers].                      *)
(***************************************************************************)
EXTENDS Integers, Sequences, FiniteSets, TLC, Json, IOUtils, SequencesExt, FiniteSetsExt

CONSTANTS ScalN,     \* scalars range over -ScalN..ScalN
          MaxBatch

Scal == (0 - ScalN)..ScalN
BatchVals == {0 - 2, 1, 3}

ScalarUpdaters == {"accumulate", "set", "null", "nonnegative_accumulate"}

ApplyS(f, v, u) ==
  CASE f = "accumulate" -> v + u
    [] f = "set" -> u
    [] f = "null" -> v
    [] f = "nonnegative_accumulate" -> IF v + u >= 0 THEN v + u ELSE 0

\* ---- hierarchies and batches: three variables with declared updaters
VarNames == {"x", "y", "z"}
Declared == [x |-> "accumulate", y |-> "set", z |-> "nonnegative_accumulate"]
InitialV == [x |-> 1, y |-> 2, z |-> 1]
Updates == UNION {[S -> BatchVals] : S \in SUBSET VarNames}
ApplyH(vals, u) ==
  [n \in VarNames |-> IF n \in DOMAIN u THEN ApplyS(Declared[n], vals[n], u[n]) ELSE vals[n]]
RECURSIVE Fold(_, _)
Fold(vals, us) == IF us = <<>> THEN vals ELSE Fold(ApplyH(vals, Head(us)), Tail(us))
Batches == UNION {[1..n -> Updates] : n \in 1..MaxBatch}

\* ---- merge
MKeys == {"a", "b"}
Inner == {[c |-> 1], [c |-> 2, d |-> 1], [d |-> 3]}
Entries == {[t |-> "i", v |-> 1], [t |-> "i", v |-> 2]} \cup {[t |-> "d", d |-> i] : i \in Inner}
DictVals == UNION {[S -> Entries] : S \in SUBSET MKeys}
MergeInner(a, b) == [k \in DOMAIN a \cup DOMAIN b |-> IF k \in DOMAIN b THEN b[k] ELSE a[k]]
MergeEntry(a, b) ==
  IF a.t = "d" /\ b.t = "d" THEN [t |-> "d", d |-> MergeInner(a.d, b.d)] ELSE b
Merge(v, u) ==
  [k \in DOMAIN v \cup DOMAIN u |->
     IF k \in DOMAIN u
       THEN IF k \in DOMAIN v THEN MergeEntry(v[k], u[k]) ELSE u[k]
       ELSE v[k]]

\* ---- merge on deeper dictionaries, as path maps: a value is a function from a
\* prefix-free set of key paths to integers (its leaves).  Merging u into v keeps
\* the leaves of v that u does not touch: u's leaf at or above a leaf of v
\* replaces it, and so does u's dictionary where v has a leaf.
DeepU == {<<"a">>, <<"a", "c">>, <<"a", "c", "e">>, <<"a", "c", "f">>, <<"a", "d">>,
          <<"b">>, <<"b", "c">>}
IsPre(p, q) == Len(p) <= Len(q) /\ SubSeq(q, 1, Len(p)) = p
PrefixFree(S) == \A p, q \in S : p # q => ~IsPre(p, q)
DeepShapes == {S \in SUBSET DeepU : S # {} /\ PrefixFree(S)}
DeepOf(S, n) == [p \in S |-> n]
DeepMerge(v, u) ==
  [p \in {x \in DOMAIN v : \A q \in DOMAIN u : ~IsPre(q, x) /\ ~IsPre(x, q)} \cup DOMAIN u |->
     IF p \in DOMAIN u THEN u[p] ELSE v[p]]
DeepRows(f) == {<<p, f[p]>> : p \in DOMAIN f}
\* second updates: the shapes that reach below the top level
DeepSecond == {S \in DeepShapes : \E p \in S : Len(p) >= 2}

\* ---- _reduce: the update value is a reduction over a subtree of the hierarchy
\* (here: initial value plus the sum of the leaves below `from`), then applied
\* with the variable's updater
ReduceLeaves == [x : 0..2, y : 0..2]
ReduceCases == {[leaves |-> lv, initial |-> i, f |-> f, v |-> v] :
                  lv \in ReduceLeaves, i \in {0, 5}, f \in {"accumulate", "set"}, v \in {0, 3}}
ReduceOut(rc) == ApplyS(rc.f, rc.v, rc.initial + rc.leaves.x + rc.leaves.y)

\* ---- dict_value: current maps keys to inner dictionaries
DKeys == {"a", "b", "c"}
InnerD == {[x |-> 1], [x |-> 2, y |-> 5]}
Currents == UNION {[S -> InnerD] : S \in SUBSET {"a", "b"}}
\* operations, carried out in the order the update lists them: add a key (new,
\* or replacing an existing entry), update the inner dictionary of a key that
\* exists by then (also the one just added), delete existing keys
DictOps(cur) ==
  {[add |-> A, del |-> Dl, upd |-> U] :
     A \in {<<>>} \cup {(k :> i) : k \in {"a", "c"}, i \in InnerD},
     Dl \in SUBSET DOMAIN cur,
     U \in UNION {[S -> {[x |-> 7], [y |-> 8]}] : S \in SUBSET (DOMAIN cur \cup {"c"})}}
ValidOp(op) == DOMAIN op.upd \cap op.del = {}
AfterAdd(cur, op) ==
  [k \in DOMAIN cur \cup DOMAIN op.add |-> IF k \in DOMAIN op.add THEN op.add[k] ELSE cur[k]]
ValidFor(cur, op) == ValidOp(op) /\ DOMAIN op.upd \subseteq DOMAIN AfterAdd(cur, op)
ApplyDict(cur, op) ==
  LET added == AfterAdd(cur, op)
  IN [k \in DOMAIN added \ op.del |->
        IF k \in DOMAIN op.upd THEN MergeInner(added[k], op.upd[k]) ELSE added[k]]

\* ---- units: magnitudes are kept in the base unit mg; g = 1000 mg
Units == {"mg", "g"}
Factor(un) == IF un = "g" THEN 1000 ELSE 1
UnitCases ==
  {[decl |-> d, f |-> f, v |-> v, u |-> u, uunit |-> uu] :
     d \in Units, f \in {"accumulate", "set"}, v \in {0, 1, 2}, u \in {0 - 1, 2, 3}, uu \in Units}
\* result magnitude in base units; the result is held in the declared unit
UnitResultBase(cs) == ApplyS(cs.f, cs.v * Factor(cs.decl), cs.u * Factor(cs.uunit))

-----------------------------------------------------------------------------
VARIABLE c
Init ==
  \/ \E f \in ScalarUpdaters, v \in Scal, u \in Scal :
        c = [kind |-> "scalar", f |-> f, v |-> v, u |-> u]
  \/ \E f \in ScalarUpdaters, g \in ScalarUpdaters, v \in Scal, u \in Scal :
        c = [kind |-> "override", f |-> f, g |-> g, v |-> v, u |-> u]
  \/ \E b \in Batches : c = [kind |-> "batch", us |-> b]
  \/ \E v \in DictVals, u \in DictVals : c = [kind |-> "merge", v |-> v, u |-> u]
  \/ \E cur \in Currents : \E op \in DictOps(cur) :
        ValidFor(cur, op) /\ c = [kind |-> "dict_value", cur |-> cur, op |-> op]
  \/ \E cs \in UnitCases : c = [kind |-> "units", cs |-> cs]
  \/ \E sv \in DeepShapes, su \in DeepShapes : c = [kind |-> "deep", sv |-> sv, su |-> su]
Next == UNCHANGED c

LawAccumulateCommutes ==
  c.kind = "scalar" =>
    \A w \in Scal : ApplyS("accumulate", ApplyS("accumulate", c.v, c.u), w)
                  = ApplyS("accumulate", ApplyS("accumulate", c.v, w), c.u)
LawSetNull ==
  c.kind = "scalar" => /\ ApplyS("set", c.v, c.u) = c.u
                       /\ ApplyS("null", c.v, c.u) = c.v
LawNonNegative ==
  c.kind = "scalar" => ApplyS("nonnegative_accumulate", c.v, c.u) >= 0
LawUntouched ==
  c.kind = "batch" =>
    \A n \in VarNames :
       (\A i \in 1..Len(c.us) : n \notin DOMAIN c.us[i]) => Fold(InitialV, c.us)[n] = InitialV[n]
LawMerge ==
  c.kind = "merge" =>
    /\ DOMAIN Merge(c.v, c.u) = DOMAIN c.v \cup DOMAIN c.u
    /\ Merge(c.v, <<>>) = c.v
    /\ \A k \in DOMAIN c.v \ DOMAIN c.u : Merge(c.v, c.u)[k] = c.v[k]
    /\ \A k \in DOMAIN c.u : (c.u[k].t = "i" => Merge(c.v, c.u)[k] = c.u[k])
LawDeepMerge ==
  c.kind = "deep" =>
     LET v == DeepOf(c.sv, 1)  u == DeepOf(c.su, 2) IN
       /\ \A p \in DOMAIN u : DeepMerge(v, u)[p] = 2
       /\ PrefixFree(DOMAIN DeepMerge(v, u))
       /\ DeepMerge(v, v) = v
       /\ \A p \in DOMAIN v : (\A q \in DOMAIN u : ~IsPre(q, p) /\ ~IsPre(p, q)) =>
              DeepMerge(v, u)[p] = 1
LawUnitsKept ==
  c.kind = "units" => (c.cs.f = "set" => UnitResultBase(c.cs) = c.cs.u * Factor(c.cs.uunit))

Expected(x) ==
  CASE x.kind = "scalar" -> [kind |-> "scalar", f |-> x.f, v |-> x.v, u |-> x.u,
                             out |-> ApplyS(x.f, x.v, x.u)]
    \* the updater named in an update applies to that update only: a plain
    \* update that follows is combined by the declared updater again (out2)
    [] x.kind = "override" -> [kind |-> "override", f |-> x.f, g |-> x.g, v |-> x.v, u |-> x.u,
                               out |-> ApplyS(x.g, x.v, x.u),
                               out2 |-> ApplyS(x.f, ApplyS(x.g, x.v, x.u), x.u)]
    [] x.kind = "batch" -> [kind |-> "batch", us |-> x.us, init |-> InitialV, decl |-> Declared,
                            out |-> Fold(InitialV, x.us)]
    [] x.kind = "merge" -> [kind |-> "merge", v |-> x.v, u |-> x.u, out |-> Merge(x.v, x.u)]
    [] x.kind = "dict_value" -> [kind |-> "dict_value", cur |-> x.cur, add |-> x.op.add,
                                 del |-> x.op.del, upd |-> x.op.upd,
                                 out |-> ApplyDict(x.cur, x.op)]
    [] x.kind = "units" -> [kind |-> "units", cs |-> x.cs, base |-> UnitResultBase(x.cs)]

LawOverrideOnce ==
  c.kind = "override" =>
    /\ Expected(c).out = ApplyS(c.g, c.v, c.u)
    /\ Expected(c).out2 = ApplyS(c.f, Expected(c).out, c.u)
    /\ (c.f = "accumulate" /\ c.g = "set" => Expected(c).out2 = c.u + c.u)

Export ==
  /\ TLCGet("stats").generated >= 0
  /\ JsonSerialize(IOEnv.OUT_FILE,
       [scalar |-> SetToSeq({Expected([kind |-> "scalar", f |-> f, v |-> v, u |-> u]) :
                               f \in ScalarUpdaters, v \in Scal, u \in Scal}),
        override |-> SetToSeq({Expected([kind |-> "override", f |-> f, g |-> g, v |-> v, u |-> u]) :
                               f \in ScalarUpdaters, g \in ScalarUpdaters, v \in Scal, u \in Scal}),
        batch |-> SetToSeq({Expected([kind |-> "batch", us |-> b]) : b \in Batches}),
        merge |-> SetToSeq({Expected([kind |-> "merge", v |-> v, u |-> u]) :
                               v \in DictVals, u \in DictVals}),
        dict_value |-> SetToSeq(UNION {{Expected([kind |-> "dict_value", cur |-> cur, op |-> op]) :
                               op \in {o \in DictOps(cur) : ValidFor(cur, o)}} : cur \in Currents}),
        units |-> SetToSeq({Expected([kind |-> "units", cs |-> cs]) : cs \in UnitCases}),
        reduce |-> SetToSeq({[rc |-> rc, out |-> ReduceOut(rc)] : rc \in ReduceCases}),
        deep |-> SetToSeq({[v |-> DeepRows(DeepOf(sv, 1)), u1 |-> DeepRows(DeepOf(s1, 2)),
                            u2 |-> DeepRows(DeepOf(s2, 3)),
                            out1 |-> DeepRows(DeepMerge(DeepOf(sv, 1), DeepOf(s1, 2))),
                            out2 |-> DeepRows(DeepMerge(DeepMerge(DeepOf(sv, 1), DeepOf(s1, 2)),
                                                        DeepOf(s2, 3)))] :
                           sv \in DeepShapes, s1 \in DeepShapes, s2 \in DeepSecond})])
=============================================================================
