INIT TInit
NEXT TNext
CONSTANTS
  Names = {"a", "b", "c", "d"}
  Tpls = {"T1", "T2", "T3", "T4", "T5"}
  MaxTicks = 1000
  MaxComps = 1000
CONSTRAINT Mark
POSTCONDITION Post
CHECK_DEADLOCK FALSE
INVARIANTS
  C10_DeriversOnce
