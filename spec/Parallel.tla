------------------------------ MODULE Parallel ------------------------------
(***************************************************************************)
(* Command protocol between the engine (parent) and the OS worker of a     *)
(* parallel process (property C13).                                        *)
(*                                                                         *)
(* Parent actions (one per hook event in ParallelProcess):                 *)
(*   Send(w, c)    send_command: pre-check (nothing pending), pipe write   *)
(*   RecvBegin(w)  get_command_result: pending flag cleared, parent blocks *)
(*   RecvDone      the blocked parent obtains the result (silent)          *)
(*   EndBegin(w)   ParallelProcess.end() entered                           *)
(*   EndDone(w)    the worker has been joined                              *)
(* Worker action:  WorkerStep(w) takes one command; "end" makes it exit.   *)
(*                                                                         *)
(* Specified behaviour of end(): a no-op when already ended; otherwise a   *)
(* result that is still pending is collected first, then "end" is sent and *)
(* the worker is joined.  The pinned behaviour - sending "end" while a     *)
(* command is pending, which the pre-check rejects - is the deviation      *)
(* "EndWhilePending".                                                      *)
(***************************************************************************)
EXTENDS Naturals, Sequences, FiniteSets, TLC

CONSTANTS Workers, Dev, MaxCmds

VARIABLES
  pend,   \* [w -> BOOLEAN]  parent believes a command is pending
  toW,    \* [w -> Seq]      commands in the pipe to the worker
  toP,    \* [w -> Nat]      unread results in the pipe to the parent
  wst,    \* [w -> {"run", "exited"}]
  ended,  \* [w -> BOOLEAN]  parent's _ended flag
  par,    \* what the (single-threaded) parent is doing
  err,    \* "" or the name of a protocol error
  ncmd    \* commands sent so far (bounds the model)
vars == <<pend, toW, toP, wst, ended, par, err, ncmd>>

Free == [op |-> "free", w |-> "-", ctx |-> "-"]

Init ==
  /\ pend = [w \in Workers |-> FALSE]
  /\ toW = [w \in Workers |-> <<>>]
  /\ toP = [w \in Workers |-> 0]
  /\ wst = [w \in Workers |-> "run"]
  /\ ended = [w \in Workers |-> FALSE]
  /\ par = Free /\ err = "" /\ ncmd = 0

InEnd(w) == par.op = "end" /\ par.w = w
EndSent(w) == \E i \in 1..Len(toW[w]) : toW[w][i] = "end"

\* send_command(c): allowed from the free parent (c = a process command) or
\* inside end() (c = "end")
Send(w, c) ==
  /\ err = ""
  /\ IF c = "end" THEN InEnd(w) ELSE par = Free
  /\ IF ended[w] /\ c # "end" THEN
        /\ err' = "use_after_end" /\ UNCHANGED <<pend, toW, ncmd>>
     ELSE IF pend[w] THEN
        /\ err' = "send_while_pending" /\ UNCHANGED <<pend, toW, ncmd>>
     ELSE
        /\ pend' = [pend EXCEPT ![w] = TRUE]
        /\ toW' = [toW EXCEPT ![w] = Append(@, c)]
        /\ ncmd' = ncmd + 1
        /\ UNCHANGED err
  /\ UNCHANGED <<toP, wst, ended, par>>

\* get_command_result(): from the free parent, or inside end() to drain
RecvBegin(w) ==
  /\ err = "" /\ (par = Free \/ InEnd(w))
  /\ IF ended[w] THEN err' = "use_after_end" /\ UNCHANGED <<pend, par>>
     ELSE IF ~pend[w] THEN err' = "recv_without_pending" /\ UNCHANGED <<pend, par>>
     ELSE /\ pend' = [pend EXCEPT ![w] = FALSE]
          /\ par' = [op |-> "recv", w |-> w, ctx |-> par.op]
          /\ UNCHANGED err
  /\ UNCHANGED <<toW, toP, wst, ended, ncmd>>

RecvDone ==
  /\ par.op = "recv" /\ toP[par.w] > 0
  /\ toP' = [toP EXCEPT ![par.w] = @ - 1]
  /\ par' = IF par.ctx = "end" THEN [op |-> "end", w |-> par.w, ctx |-> "-"] ELSE Free
  /\ UNCHANGED <<pend, toW, wst, ended, err, ncmd>>

EndBegin(w) ==
  /\ err = "" /\ par = Free
  /\ IF ended[w] THEN UNCHANGED par
     ELSE par' = [op |-> "end", w |-> w, ctx |-> "-"]
  /\ UNCHANGED <<pend, toW, toP, wst, ended, err, ncmd>>

\* inside end(): what the specified implementation does next
EndDrain(w) == InEnd(w) /\ pend[w] /\ ~EndSent(w) /\ wst[w] = "run"
               /\ "EndWhilePending" \notin Dev /\ RecvBegin(w)
EndSend(w)  == InEnd(w) /\ (~pend[w] \/ "EndWhilePending" \in Dev)
               /\ ~EndSent(w) /\ wst[w] = "run" /\ Send(w, "end")
EndDone(w) ==
  /\ InEnd(w) /\ wst[w] = "exited"
  /\ ended' = [ended EXCEPT ![w] = TRUE]
  /\ par' = Free
  /\ UNCHANGED <<pend, toW, toP, wst, err, ncmd>>

WorkerStep(w) ==
  /\ wst[w] = "run" /\ toW[w] # <<>>
  /\ toW' = [toW EXCEPT ![w] = Tail(@)]
  /\ IF Head(toW[w]) = "end"
       THEN wst' = [wst EXCEPT ![w] = "exited"] /\ UNCHANGED toP
       ELSE toP' = [toP EXCEPT ![w] = @ + 1] /\ UNCHANGED wst
  /\ UNCHANGED <<pend, ended, par, err, ncmd>>

\* the engine: starts updates, collects them, ends processes at any moment
\* (deletion of a subtree, Engine.end() once or twice, garbage collection)
Next ==
  \/ \E w \in Workers : ncmd < MaxCmds /\ ~pend[w] /\ ~ended[w] /\ Send(w, "next_update")
  \/ \E w \in Workers : par = Free /\ pend[w] /\ ~ended[w] /\ RecvBegin(w)
  \/ RecvDone
  \/ \E w \in Workers : EndBegin(w)
  \/ \E w \in Workers : EndDrain(w) \/ EndSend(w) \/ EndDone(w)
  \/ \E w \in Workers : WorkerStep(w)

Progress == \/ RecvDone
            \/ \E w \in Workers : EndDrain(w) \/ EndSend(w) \/ EndDone(w) \/ WorkerStep(w)
Spec == Init /\ [][Next]_vars /\ WF_vars(Progress)

C13_NoSendWhilePending == err # "send_while_pending"
C13_NoUseAfterEnd      == err # "use_after_end"
C13_NoSpuriousRecv     == err # "recv_without_pending"
\* once end() has returned the OS worker has exited and left nothing unread
C13_EndedMeansExited   == \A w \in Workers : ended[w] => (wst[w] = "exited" /\ toW[w] = <<>>)
\* end() always returns (no hang), whatever was pending when it was called
C13_EndTerminates      == \A w \in Workers : (InEnd(w) ~> (par = Free \/ err # ""))
\* a blocked get_command_result always returns
C13_RecvReturns        == (par.op = "recv") ~> (par.op # "recv")
TypeOK == /\ \A w \in Workers : toP[w] \in 0..MaxCmds /\ Len(toW[w]) <= 2
          /\ par.op \in {"free", "end", "recv"}
=============================================================================
