------------------------------ MODULE Timeline ------------------------------
(***************************************************************************)
(* TimelineProcess (property C19).  A timeline is a sequence (listing      *)
(* order) of events [t, var, val].  The process ticks with a fixed         *)
(* timestep; at a tick with clock value k it fires every event not yet     *)
(* fired with t <= k; the engine applies the resulting `set` updates, and  *)
(* the increment of the clock, at the end of the tick's interval.          *)
(* Events fired in one tick are merged in time order, listing order        *)
(* deciding among equal times.                                             *)
(***************************************************************************)
EXTENDS Naturals, Sequences, FiniteSets, TLC, Json, IOUtils, SequencesExt, FiniteSetsExt

CONSTANTS Times,    \* possible event times
          TVars,    \* variables driven by the timeline
          MaxEv,    \* maximal number of events
          TSteps,   \* timeline timesteps
          RunLen    \* run lengths (simulated time)

Events == [t : Times, var : TVars]
\* the value of an event is its position in the listing (all distinct)
Timelines == UNION {[1..n -> Events] : n \in 0..MaxEv}

VARIABLES tl, ts, run, clock, fired, vals, firedAt, rows
vars == <<tl, ts, run, clock, fired, vals, firedAt, rows>>

Init ==
  /\ tl \in Timelines /\ ts \in TSteps /\ run \in RunLen
  /\ clock = 0 /\ fired = {}
  /\ vals = [v \in TVars |-> 0]
  /\ firedAt = [i \in DOMAIN tl |-> 0]     \* 0: not fired, else tick number + 1
  /\ rows = <<[time |-> 0, vals |-> vals]>>

\* among the events firing now, the one that decides variable v
Later(i, j) == tl[i].t > tl[j].t \/ (tl[i].t = tl[j].t /\ i > j)
Winner(F, v) ==
  LET C == {i \in F : tl[i].var = v}
  IN IF C = {} THEN 0 ELSE CHOOSE i \in C : \A j \in C : i = j \/ Later(i, j)

\* the last tick of a run is cut at the end of the run (forced completion): it
\* fires what is due at its start like any other tick, its effect and the clock
\* increment land at the end of the run
StepLen(clk, s, r) == IF clk + s <= r THEN s ELSE r - clk
Tick ==
  /\ clock < run
  /\ LET F == {i \in DOMAIN tl : i \notin fired /\ tl[i].t <= clock}
         nv == [v \in TVars |-> IF Winner(F, v) = 0 THEN vals[v] ELSE Winner(F, v)]
         st == StepLen(clock, ts, run)
     IN /\ fired' = fired \cup F
        /\ firedAt' = [i \in DOMAIN tl |-> IF i \in F THEN (clock \div ts) + 1 ELSE firedAt[i]]
        /\ vals' = nv
        /\ clock' = clock + st
        /\ rows' = Append(rows, [time |-> clock + st, vals |-> nv])
  /\ UNCHANGED <<tl, ts, run>>

Done == clock >= run
Next == Tick \/ (Done /\ UNCHANGED vars)

\* each event fires exactly once, at the first tick whose clock has reached it
C19_OnTimeOnce ==
  \A i \in DOMAIN tl :
     /\ (i \in fired) = (firedAt[i] # 0)
     /\ firedAt[i] # 0 =>
          LET k == firedAt[i] - 1 IN k * ts >= tl[i].t /\ (k = 0 \/ (k - 1) * ts < tl[i].t)
\* nothing due is left behind
C19_NoneDropped ==
  \A i \in DOMAIN tl : (tl[i].t + ts <= clock) => i \in fired
\* firing does not depend on the listing order: an event fires at the tick
\* determined by its own time only
C19_OrderFree ==
  \A i, j \in DOMAIN tl : (tl[i].t = tl[j].t) => (firedAt[i] = firedAt[j])
C19_NeverRefired == [][\A i \in DOMAIN tl : firedAt[i] # 0 => firedAt'[i] = firedAt[i]]_vars

\* the same run as a function of (timeline, timestep, run length), used for
\* the exported table; RowsAgree ties it to the behaviours TLC explores
LaterT(T, i, j) == T[i].t > T[j].t \/ (T[i].t = T[j].t /\ i > j)
WinnerT(T, F, v) ==
  LET C == {i \in F : T[i].var = v}
  IN IF C = {} THEN 0 ELSE CHOOSE i \in C : \A j \in C : i = j \/ LaterT(T, i, j)
RECURSIVE RunFrom(_, _, _, _, _, _)
RunFrom(T, s, r, clk, Fd, V) ==
  IF clk >= r THEN <<>>
  ELSE LET F == {i \in DOMAIN T : i \notin Fd /\ T[i].t <= clk}
           nv == [v \in TVars |-> IF WinnerT(T, F, v) = 0 THEN V[v] ELSE WinnerT(T, F, v)]
           st == StepLen(clk, s, r)
       IN <<[time |-> clk + st, vals |-> nv]>> \o RunFrom(T, s, r, clk + st, Fd \cup F, nv)
FullRows(T, s, r) ==
  <<[time |-> 0, vals |-> [v \in TVars |-> 0]]>> \o RunFrom(T, s, r, 0, {}, [v \in TVars |-> 0])
RowsAgree == rows = SubSeq(FullRows(tl, ts, run), 1, Len(rows))

Export ==
  /\ TLCGet("stats").generated >= 0
  /\ JsonSerialize(IOEnv.OUT_FILE,
        SetToSeq({[tl |-> T, ts |-> s, run |-> r, rows |-> FullRows(T, s, r)] :
                    T \in Timelines, s \in TSteps, r \in RunLen}))
=============================================================================
