------------------------------- MODULE Clock -------------------------------
(***************************************************************************)
(* The time rules of Engine.run_for, abstracted from Engine.tla to what     *)
(* decides C03 (and the time side of C01/C02): one action per iteration of  *)
(* the `while self.global_time < end_time or force_complete` loop (the poll *)
(* pass over all processes, the advance of the clock and the application of *)
(* what is due, taken together), times and timesteps UNBOUNDED integers.    *)
(*                                                                          *)
(* Engine.tla is the specification the implementation is bound to (traces   *)
(* of the real engine are checked against it, TLC explores it with small    *)
(* timesteps and a horizon).  This module exists because TLC cannot          *)
(* quantify over all magnitudes of times: here Apalache discharges an        *)
(* inductive invariant (IndInit => IndInv, IndInv /\ Next => IndInv') and    *)
(* the action properties below for EVERY integer now / end / timestep, for   *)
(* three processes.  The same IndInv is checked by TLC on the loop-head      *)
(* states of Engine.tla (MC_Engine: ClockIndInv), which ties the abstraction *)
(* to the implementation-shaped specification.                               *)
(***************************************************************************)
EXTENDS Integers, FiniteSets

Procs == {"p1", "p2", "p3"}

VARIABLES
  \* @type: Int;
  now,      \* Engine.global_time
  \* @type: Int;
  endT,     \* end_time of the current / last call
  \* @type: Bool;
  force,    \* force_complete, reset when the end is reached
  \* @type: Str -> Int;
  ft,       \* front[p]['time']
  \* @type: Str -> Bool;
  pend,     \* an update of p is in flight (computed, not yet applied)
  \* @type: Str -> Int;
  dts,      \* binding timestep kept from a call the interval did not fit in (0: none)
  \* @type: Str -> Int;
  handed    \* timestep handed to p at its latest next_update (history)

vars == <<now, endT, force, ft, pend, dts, handed>>

Running == now < endT \/ force

Min(a, b) == IF a < b THEN a ELSE b

TypeOK ==
  /\ now \in Int /\ endT \in Int /\ force \in BOOLEAN
  /\ ft \in [Procs -> Int] /\ pend \in [Procs -> BOOLEAN]
  /\ dts \in [Procs -> Int] /\ handed \in [Procs -> Int]

Init ==
  /\ now = 0 /\ endT = 0 /\ force = FALSE
  /\ ft = [p \in Procs |-> 0]
  /\ pend = [p \in Procs |-> FALSE]
  /\ dts = [p \in Procs |-> 0]
  /\ handed = [p \in Procs |-> 0]

(* run_for(iv, force_complete=f) / update(iv)                               *)
Call(iv, f) ==
  /\ ~Running /\ iv >= 0
  /\ endT' = now + iv /\ force' = f
  /\ UNCHANGED <<now, ft, pend, dts, handed>>

(* One iteration.  ts[p] is what calculate_timestep answers (>= 1; 0 and    *)
(* negative timesteps are outside the properties' domain), cond[p] what      *)
(* update_condition answers; both are asked of due processes only.           *)
Due(p)        == ft[p] <= now
Ets(p, ts)    == IF dts[p] # 0 THEN dts[p] ELSE ts[p]
Fut(p, ts)    == IF force THEN Min(ft[p] + Ets(p, ts), endT) ELSE ft[p] + Ets(p, ts)
Defers(p, ts) == Due(p) /\ Fut(p, ts) > endT
Invokes(p, ts, cond) == Due(p) /\ ~Defers(p, ts) /\ cond[p]
Quiet(p, ts, cond)   == Due(p) /\ ~Defers(p, ts) /\ ~cond[p]
\* the event time p contributes to full_step (quiet processes contribute none)
Contrib(p, ts) == IF Due(p) THEN Fut(p, ts) ELSE ft[p]
Contributes(p, ts, cond) == ~Quiet(p, ts, cond)

Iterate(ts, cond) ==
  /\ Running
  /\ \A p \in Procs : ts[p] >= 1
  /\ \E n \in Int :
       \* n is the next value of the clock
       /\ LET C == {p \in Procs : Contributes(p, ts, cond)}
          IN IF C = {} THEN n = endT
             ELSE \E m \in C :
                    /\ \A q \in C : Contrib(m, ts) <= Contrib(q, ts)
                    /\ n = Min(Contrib(m, ts), endT)
       /\ now' = n
       /\ force' = (force /\ n # endT)
       /\ ft' = [p \in Procs |->
                   IF Invokes(p, ts, cond) THEN Fut(p, ts)
                   ELSE IF Quiet(p, ts, cond) THEN n
                   ELSE ft[p]]
       /\ pend' = [p \in Procs |->
                   IF Invokes(p, ts, cond) THEN Fut(p, ts) > n
                   ELSE pend[p] /\ ft[p] > n]
       /\ dts' = [p \in Procs |->
                   IF Defers(p, ts) THEN Ets(p, ts)
                   ELSE IF Due(p) THEN 0 ELSE dts[p]]
       /\ handed' = [p \in Procs |->
                   IF Invokes(p, ts, cond) THEN Fut(p, ts) - ft[p] ELSE handed[p]]
  /\ UNCHANGED endT

Next ==
  \/ \E iv \in Int, f \in BOOLEAN : Call(iv, f)
  \/ \E ts \in [Procs -> Int], cond \in [Procs -> BOOLEAN] : Iterate(ts, cond)

Spec == Init /\ [][Next]_vars

-----------------------------------------------------------------------------
(* The inductive invariant (loop-head states)                               *)

IndInv ==
  /\ TypeOK
  /\ now <= endT                                              \* C03: never past the end
  /\ \A p \in Procs :
       /\ pend[p] => (now < ft[p] /\ ft[p] <= endT)            \* in flight: ends in this call
       /\ (~pend[p] /\ dts[p] = 0) => ft[p] = now              \* idle processes are at the clock
       /\ ~pend[p] => ft[p] <= now
       /\ dts[p] >= 0
       /\ dts[p] # 0 => (~pend[p] /\ ft[p] + dts[p] > now)  \* a kept interval ends in the future

\* Apalache: an arbitrary state satisfying the invariant
IndInit ==
  /\ now \in Int /\ endT \in Int /\ force \in BOOLEAN
  /\ ft \in [Procs -> Int] /\ pend \in [Procs -> BOOLEAN]
  /\ dts \in [Procs -> Int] /\ handed \in [Procs -> Int]
  /\ IndInv

(* consequences, as state invariants                                        *)
C03_NoOvershoot          == now <= endT
C01_NothingInFlightAtReturn == ~Running => \A p \in Procs : ~pend[p]

Consequences == C03_NoOvershoot /\ C01_NothingInFlightAtReturn

(* action properties (Apalache: --inv on an operator with primes)           *)
C03_Monotone   == now' >= now
C03_EndFixed   == Running => endT' = endT
\* every iteration moves the clock or ends the call: run_for terminates, in at
\* most endT - now iterations plus one
C03_Progress   == Running => (now' > now \/ ~(now' < endT' \/ force'))
\* C02: the timestep handed out is the length of the interval it covers, and is positive
\* unless a forced call of length 0 asks for it
C02_Handed     == \A p \in Procs :
                    (Running /\ (handed'[p] # handed[p] \/ (ft'[p] > ft[p] /\ pend'[p])))
                      => (handed'[p] = ft'[p] - ft[p] /\ handed'[p] >= 0)
\* C01: an update in flight is applied exactly when the clock reaches the end of its interval
C01_AppliedOnTime == \A p \in Procs :
                    (pend[p] /\ ~pend'[p]) => now' = ft[p]
ActionProps == C03_Monotone /\ C03_EndFixed /\ C03_Progress /\ C02_Handed /\ C01_AppliedOnTime
=============================================================================
