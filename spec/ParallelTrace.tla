---------------------------- MODULE ParallelTrace ----------------------------
(* Trace validation of the command protocol events (hooks in               *)
(* ParallelProcess) and of the harness' observations of the OS workers.    *)
EXTENDS Parallel, Json, IOUtils, TLCExt

File   == JsonDeserialize(IOEnv.TRACE_FILE)
Traces == File.traces
DiagL  == File.diag
VARIABLES tid, l
tvars == <<vars, tid, l>>
Tr == Traces[tid]
Ev == Tr[l]
More == l <= Len(Tr)
Normal == More /\ (DiagL[tid] = 0 \/ l < DiagL[tid])
SeqToSet(s) == {s[i] : i \in 1..Len(s)}
Adv == l' = l + 1 /\ UNCHANGED tid

TInit == tid \in 1..Len(Traces) /\ l = 1 /\ Init

\* rules broken by record e in the current state
FailsOf(e) ==
  CASE e.ev = "send" ->
         IF par.op = "recv" THEN {"struct"}
         ELSE IF e.c = "end" THEN
            (IF ~InEnd(e.w) THEN {"end_outside_end"} ELSE {})
            \cup (IF pend[e.w] THEN {"end_while_pending"} ELSE {})
            \cup (IF ended[e.w] THEN {"end_twice"} ELSE {})
         ELSE (IF par # Free THEN {"struct"} ELSE {})
            \cup (IF ended[e.w] THEN {"use_after_end"} ELSE {})
            \cup (IF pend[e.w] THEN {"send_while_pending"} ELSE {})
    [] e.ev = "recv" ->
         IF ~(par = Free \/ InEnd(e.w)) THEN {"struct"}
         ELSE (IF ended[e.w] THEN {"use_after_end"} ELSE {})
            \cup (IF ~pend[e.w] THEN {"recv_without_pending"} ELSE {})
    [] e.ev = "end_begin" ->
         IF par # Free THEN {"struct"}
         ELSE IF e.ended # ended[e.w] THEN {"ended_flag"} ELSE {}
    [] e.ev = "end_done" ->
         IF ~InEnd(e.w) THEN {"struct"}
         ELSE IF ~EndSent(e.w) /\ wst[e.w] # "exited" THEN {"joined_without_end"}
         ELSE IF wst[e.w] # "exited" THEN {"struct"} ELSE {}
    [] e.ev = "alive" ->
         IF par # Free THEN {"struct"}
         ELSE IF SeqToSet(e.ws) # {w \in Workers : wst[w] = "run"} \cap SeqToSet(e.known)
           THEN {"workers_alive"} ELSE {}
    [] e.ev = "expect_ended" ->
         IF par # Free THEN {"struct"}
         ELSE IF \E w \in SeqToSet(e.ws) : ~ended[w] THEN {"not_ended"} ELSE {}
    [] e.ev = "expect_live" ->
         IF par # Free THEN {"struct"}
         ELSE IF \E w \in SeqToSet(e.ws) : ended[w] THEN {"ended_but_in_tree"} ELSE {}
    [] e.ev = "error" -> {"exception"}
    [] e.ev = "hang"  -> {"hang"}
    [] OTHER -> {"unknown_record"}

TEvent ==
  /\ Normal /\ FailsOf(Ev) = {}
  /\ CASE Ev.ev = "send" -> Send(Ev.w, Ev.c)
       [] Ev.ev = "recv" -> RecvBegin(Ev.w)
       [] Ev.ev = "end_begin" -> EndBegin(Ev.w)
       [] Ev.ev = "end_done" -> EndDone(Ev.w)
       [] OTHER -> UNCHANGED vars
  /\ err' = ""
  /\ Adv

Silent == /\ (RecvDone \/ \E w \in Workers : WorkerStep(w))
          /\ UNCHANGED <<tid, l>>

Diagnose ==
  /\ More /\ DiagL[tid] = l
  /\ PrintT(<<"DIAG", tid, l, par.op, FailsOf(Ev)>>)
  /\ l' = Len(Tr) + 2 /\ UNCHANGED <<vars, tid>>

TNext == TEvent \/ Silent \/ Diagnose
Mark == TLCSet(2, [TLCGet(2) EXCEPT ![tid] = IF @ < l THEN l ELSE @])
Post ==
  LET prog == TLCGet(2)
      bad == {t \in 1..Len(Traces) : prog[t] <= Len(Traces[t])}
  IN /\ PrintT(<<"VALIDATED", Len(Traces), "REJECTED", Cardinality(bad)>>)
     /\ \A t \in bad : PrintT(<<"REJ", t, prog[t]>>)
ASSUME TLCSet(2, [t \in 1..Len(Traces) |-> 0])
=============================================================================
