---------------------------- MODULE EngineTrace ----------------------------
(***************************************************************************)
(* Trace validation: is every recorded execution of the real engine a      *)
(* behaviour of Engine.tla?  The file IOEnv.TRACE_FILE holds many traces;  *)
(* tid selects one, l is the next record.  Each record kind is bound to    *)
(* one action of Engine; the logged fields are compared with the values    *)
(* the specification computes.  Every comparison is a named rule so that a *)
(* rejected trace can be attributed (see Diagnose).                        *)
(***************************************************************************)
EXTENDS Engine, Json, IOUtils, TLCExt

File   == JsonDeserialize(IOEnv.TRACE_FILE)
Traces == File.traces
DiagL  == File.diag       \* per trace: record index to diagnose (0: none)

VARIABLES tid, l
tvars == <<vars, tid, l>>

Tr   == Traces[tid]
Ev   == Tr[l]
More == l <= Len(Tr)
Normal == More /\ (DiagL[tid] = 0 \/ l < DiagL[tid])
Is(k) == Normal /\ Ev.ev = k
Adv  == l' = l + 1 /\ UNCHANGED tid
Stay == UNCHANGED <<tid, l>>
SeqToSet(s) == {s[i] : i \in 1..Len(s)}

TInit ==
  /\ tid \in 1..Len(Traces) /\ l = 2
  /\ LET e == Traces[tid][1]
         S == SeqToSet(e.steps)
     IN InitWith(SeqToSet(e.procs), e.vals, S,
                 [s \in S |-> IF s \in DOMAIN e.deps THEN SeqToSet(e.deps[s]) ELSE {}],
                 e.seq, e.emit_step, e.t0)

-----------------------------------------------------------------------------
(* Rules: each operator returns the set of names of the rules that the     *)
(* record e breaks in the current state ("struct": the record cannot occur *)
(* at this position of the code at all).                                    *)

ViewBad(view) == \E v \in DOMAIN view : v \notin DOMAIN val \/ view[v] # val[v]

\* The timesteps the specification may use for this poll.  A process whose
\* interval did not fit an earlier call keeps the timestep it asked for then;
\* the properties are equally satisfied when it is asked again, as long as
\* the interval it then gets does not end in the past.
PollTsSet(e) ==
  IF IsDeferred(e.p)
    THEN {front[e.p].dts} \cup
         (IF e.ts > 0 /\ front[e.p].time + e.ts > now THEN {e.ts} ELSE {})
    ELSE IF e.ts > 0 THEN {e.ts} ELSE {}

PollFailsWith(e, ts) ==
    LET p == e.p
        fits == FutureOf(p, ts) <= endT
    IN (IF now # e.now THEN {"time"} ELSE {})
       \cup (IF (e.cond = "N") = fits THEN {"fit"} ELSE {})
       \cup (IF e.cond # "N" /\ fits /\ e.targ # HandedOf(p, ts) THEN {"handed"} ELSE {})
       \cup (IF e.cond = "T" /\ fits /\ e.handed # HandedOf(p, ts) THEN {"handed"} ELSE {})
       \cup (IF ViewBad(e.view) THEN {"view"} ELSE {})

PollFails(e) ==
  IF e.p \notin live THEN {"poll_dead"}
  ELSE IF ~(pc = "poll" /\ e.p \in toPoll) THEN
     IF pc \in {"poll", "advance", "loop", "idle"} THEN {"poll_unexpected"}
     ELSE {"struct"}
  ELSE IF ~IsDue(e.p) THEN {"poll_busy"}
  ELSE IF PollTsSet(e) = {} THEN {"poll_no_timestep"}
  ELSE LET best == CHOOSE ts \in PollTsSet(e) :
                     \A u \in PollTsSet(e) :
                        Cardinality(PollFailsWith(e, ts)) <= Cardinality(PollFailsWith(e, u))
       IN PollFailsWith(e, best)

TPoll ==
  /\ Is("poll") /\ PollFails(Ev) = {}
  /\ \E ts \in PollTsSet(Ev) :
       /\ PollFailsWith(Ev, ts) = {}
       /\ CASE Ev.cond = "N" -> PollDeferWith(Ev.p, ts)
            [] Ev.cond = "F" -> PollQuietWith(Ev.p, ts)
            [] Ev.cond = "T" -> PollInvokeWith(Ev.p, ts, Ev.upd, Ev.uid, Ev.sop)
  /\ Adv

AdvanceFails(e) ==
  IF pc # "advance" THEN {"struct"}
  ELSE IF fullStep # Inf /\ now + fullStep <= endT /\ now + fullStep = e.now
       THEN {} ELSE {"time"}

TAdvance ==
  /\ Is("advance") /\ AdvanceFails(Ev) = {}
  /\ AdvanceStep
  /\ Adv

\* writes of an apply record as a function var -> amount
WritesOf(e) == [v \in {e.writes[i].var : i \in 1..Len(e.writes)} |->
                  LET i == CHOOSE j \in 1..Len(e.writes) : e.writes[j].var = v
                  IN e.writes[i].amt]
CurBad(e) == \E i \in 1..Len(e.writes) :
                \/ e.writes[i].var \notin DOMAIN val
                \/ e.writes[i].cur # val[e.writes[i].var]
DupVar(e) == \E i, j \in 1..Len(e.writes) : i # j /\ e.writes[i].var = e.writes[j].var

ProcOfUid(u) == {p \in due : front[p].uid = u}

ApplyFails(e) ==
  IF pc = "apply" THEN
     IF ProcOfUid(e.uid) = {} THEN {"apply_unexpected"}
     ELSE LET p == CHOOSE q \in ProcOfUid(e.uid) : TRUE IN
       (IF e.now # now THEN {"time"} ELSE {})
       \cup (IF DupVar(e) \/ WritesOf(e) # front[p].upd THEN {"apply_content"} ELSE {})
       \cup (IF CurBad(e) THEN {"ledger"} ELSE {})
  ELSE IF InSteps /\ layerTodo = {} /\ staged # <<>> THEN
     IF Head(staged).uid # e.uid THEN {"step_apply_order"}
     ELSE (IF e.now # now THEN {"time"} ELSE {})
       \cup (IF DupVar(e) \/ WritesOf(e) # Head(staged).upd THEN {"apply_content"} ELSE {})
       \cup (IF CurBad(e) THEN {"ledger"} ELSE {})
  ELSE IF InSteps /\ layerTodo # {} THEN {"step_layer_incomplete"}
  ELSE IF pc \in {"loop", "poll", "idle", "emit"} THEN {"apply_unexpected"}
  ELSE {"struct"}

TApply ==
  /\ Is("apply") /\ ApplyFails(Ev) = {}
  /\ IF pc = "apply"
       THEN ApplyOne(CHOOSE q \in ProcOfUid(Ev.uid) : TRUE)
       ELSE LayerApplyOne
  /\ Adv

StepFails(e) ==
  IF ~InSteps THEN
     IF pc \in {"poll", "idle", "loop", "emit"} THEN {"step_unexpected"} ELSE {"struct"}
  ELSE IF e.s \notin layerTodo THEN
     IF e.s \in invPhase THEN {"step_twice"} ELSE {"step_order"}
  ELSE (IF e.now # now THEN {"time"} ELSE {})
       \cup (IF e.ts # 0 THEN {"step_ts"} ELSE {})
       \cup (IF ViewBad(e.view) THEN {"step_view"} ELSE {})

TStep ==
  /\ Is("step") /\ StepFails(Ev) = {}
  /\ StepInvoke(Ev.s, Ev.upd, Ev.uid)
  /\ Adv

\* a row holds exactly the variables flagged for emission (the recorded
\* configuration lists those that are not), with their committed values
EmitOff == SeqToSet(Traces[tid][1].emit_off)
RowBad(e) == \/ DOMAIN e.vals # DOMAIN val \ EmitOff
             \/ \E v \in DOMAIN e.vals \cap DOMAIN val : e.vals[v] # val[v]

RowDue == emitStep = 1 \/ emitNext <= now

\* C12: the emitter has received exactly one configuration record, and it came
\* before the first row
ConfigBad(e) == e.cfg # 1

RowFails(e) ==
  IF pc = "cemit" \/ (pc = "emit" /\ RowDue) THEN
       (IF e.time # now THEN {"row_time"} ELSE {})
       \cup (IF RowBad(e) THEN {"row_content"} ELSE {})
       \cup (IF ConfigBad(e) THEN {"config_record"} ELSE {})
  ELSE IF pc = "emit" THEN {"row_unexpected"}
  \* (one row per time: a further row for a further deadline that has passed
  \*  at the same time is a row too many - time keys are strictly increasing)
  ELSE IF pc \in {"loop", "poll", "idle"} THEN {"row_unexpected"}
  ELSE {"struct"}

TRow ==
  /\ Is("row") /\ RowFails(Ev) = {}
  /\ CASE pc = "cemit" -> EmitInitial
       [] pc = "emit"  -> Emit
       [] OTHER        -> UNCHANGED vars
  /\ Adv

CallFails(e) ==
  IF pc # "idle" THEN {"struct"}
  ELSE IF now # e.now THEN {"time"} ELSE {}

TCall ==
  /\ Is("call") /\ CallFails(Ev) = {}
  /\ Call(Ev.iv, Ev.force)
  /\ Adv

ReturnFails(e) ==
  IF pc # "idle" THEN
     IF pc \in {"poll", "advance"} THEN {"return_early"} ELSE {"struct"}
  ELSE (IF now # e.now THEN {"time"} ELSE {})
       \cup (IF lastForce /\ \E p \in live \cap DOMAIN front :
                   p \in DOMAIN e.front /\ e.front[p][1] # front[p].time
             THEN {"front_time"} ELSE {})
       \cup (IF \E p \in live \cap DOMAIN front :
                   p \in DOMAIN e.front /\ (e.front[p][2] = 1) # (front[p].pend # "none")
             THEN {"front_pending"} ELSE {})

TReturn ==
  /\ Is("return") /\ ReturnFails(Ev) = {}
  /\ Adv /\ UNCHANGED vars

\* what must have happened before a record of another kind can follow
Missing(e) ==
  (IF pc = "apply" /\ due # {} /\ e.ev # "apply" THEN {"apply_missing"} ELSE {})
  \cup (IF InSteps /\ staged # <<>> /\ layerTodo = {} /\ e.ev # "apply"
          THEN {"apply_missing"} ELSE {})
  \cup (IF InSteps /\ layerTodo # {} /\ e.ev # "step" THEN {"step_missing"} ELSE {})
  \cup (IF (pc = "cemit" \/ (pc = "emit" /\ RowDue)) /\ e.ev # "row"
          THEN {"row_missing"} ELSE {})

FailsOf(e) ==
  Missing(e) \cup
  CASE e.ev = "poll"    -> PollFails(e)
    [] e.ev = "advance" -> AdvanceFails(e)
    [] e.ev = "apply"   -> ApplyFails(e)
    [] e.ev = "step"    -> StepFails(e)
    [] e.ev = "row"     -> RowFails(e)
    [] e.ev = "call"    -> CallFails(e)
    [] e.ev = "return"  -> ReturnFails(e)
    [] e.ev = "stall"   -> {"stall"}
    [] e.ev = "exc"     -> {"exception"}
    [] OTHER            -> {"unknown_record"}

-----------------------------------------------------------------------------
(* Steps of the specification that make no callback                        *)

Silent ==
  /\ \/ LoopHead
     \/ \E p \in toPoll : PollBusy(p)
     \* a deferred process whose interval still does not fit is not asked
     \/ \E p \in toPoll :
           IsDue(p) /\ IsDeferred(p) /\ PollDeferWith(p, front[p].dts)
     \/ PollDone
     \/ AdvanceJump
     \/ AdvanceEnd
     \/ ApplyDone
     \* the update of a process deleted earlier in this batch may be discarded
     \/ \E p \in due : DropDue(p)
     \/ StepsBegin
     \/ LayerOpen
     \/ StepsEnd
     \/ (Emit /\ ~RowDue)
  /\ Stay

Diagnose ==
  /\ More /\ DiagL[tid] = l
  /\ PrintT(<<"DIAG", tid, l, pc, FailsOf(Ev)>>)
  /\ l' = Len(Tr) + 2
  /\ UNCHANGED <<vars, tid>>

TNext == TPoll \/ TAdvance \/ TApply \/ TStep \/ TRow \/ TCall \/ TReturn
         \/ Silent \/ Diagnose

TSpec == TInit /\ [][TNext]_tvars

\* progress register: the furthest record index reached per trace
Mark == TLCSet(2, [TLCGet(2) EXCEPT ![tid] = IF @ < l THEN l ELSE @])

Post ==
  LET prog == TLCGet(2)
      bad == {t \in 1..Len(Traces) : prog[t] <= Len(Traces[t])}
  IN /\ PrintT(<<"VALIDATED", Len(Traces), "REJECTED", Cardinality(bad)>>)
     /\ \A t \in bad : PrintT(<<"REJ", t, prog[t]>>)

ASSUME TLCSet(2, [t \in 1..Len(Traces) |-> 0])
=============================================================================
