SPECIFICATION Spec
CONSTANTS
  MaxObjs = 3
  MaxSteps = 4
CHECK_DEADLOCK FALSE
PROPERTIES
  C16_OnlyTargetChanges
  C16_MergeIsUnion
  C16_EmbeddedUnderPath
  C16_ReloadSame
  C16_RunLeavesTemplate
