------------------------------- MODULE Store -------------------------------
(***************************************************************************)
(* The hierarchy under structural updates (properties C09, C10, C07).      *)
(*                                                                         *)
(* Two branches, "agents" and "pool", hold compartments.  A compartment is *)
(* an instance of a template:                                              *)
(*    T0  variables only            T1  a process p                        *)
(*    T2  p and flow steps s1 <- s2 T3  p and a legacy deriver d           *)
(*    T4  p, a deriver d and a flow step s1                                *)
(* Every compartment has the variable v/x.  Each tick (Engine.update(1))   *)
(* every process that is in the hierarchy when the tick starts adds 1 to   *)
(* the x of its compartment, a director process (listed first) applies one *)
(* structural update, then the step phase runs every step that is then in  *)
(* the hierarchy exactly once (each step adds 1 to its own counter).       *)
(*                                                                         *)
(* Structural operations (the director's update):                          *)
(*   add k x0        _add a variables-only child                           *)
(*   addex k         _add an existing key: rejected                        *)
(*   del k / delpath k   _delete by key / by tuple path                    *)
(*   gen k tpl x0    _generate a compartment                               *)
(*   div m d1 d2     _divide: m is replaced by two daughters of its        *)
(*                   template holding copies of its x (set divider)        *)
(*   move k / moveback k   _move between the two branches                  *)
(*   adddel k1 k2, gendel k1 tpl k2   two operations in one update         *)
(*                   (additions first, deletions last)                     *)
(***************************************************************************)
EXTENDS Naturals, Sequences, FiniteSets, TLC

CONSTANTS Names,     \* compartment names
          Tpls,      \* templates that may be generated
          MaxTicks, MaxComps

Branches == {"agents", "pool"}
TplProcs(t) == IF t = "T0" THEN {} ELSE {"p"}
TplSteps(t) == CASE t = "T2" -> {"s1", "s2"} [] t = "T3" -> {"d"}
                 [] t = "T4" -> {"d", "s1"} [] t = "T5" -> {"d", "e"} [] OTHER -> {}
TplDerivers(t) == CASE t \in {"T3", "T4"} -> {"d"} [] t = "T5" -> {"d", "e"} [] OTHER -> {}
\* the step whose effect a step must see when it runs (same compartment):
\* its flow dependency, or the deriver declared before it
Upstream(t, s) == CASE s = "s2" -> "s1" [] (t = "T4" /\ s = "s1") -> "d"
                    [] (t = "T5" /\ s = "e") -> "d" [] OTHER -> "-"
TplDeps(t, s) == IF s = "s2" THEN {"s1"} ELSE {}

NewComp(t, x0) == [tpl |-> t, x |-> x0, cnt |-> [s \in TplSteps(t) |-> 0]]

VARIABLES
  tree,    \* [agents |-> [names -> comp], pool |-> [names -> comp]]
  eseq,    \* legacy derivers in the order the engine registered them
  origin,  \* for every compartment location: where that same node was before
           \* the last tick (a location) or <<"new">>
  invoked, \* paths of the processes / steps run in the last tick -> how often
  leaves,  \* a third branch holding plain variables: name -> value (default 5)
  seen,    \* for the steps run in the last tick that have an upstream step:
           \* path -> the upstream counter they must have seen
  now, err, lastop,
  lastmode \* "proc" / "step": who issued the last operation
vars == <<tree, eseq, origin, invoked, leaves, seen, now, err, lastop, lastmode>>
LeafDefault == 5

Locs(T) == UNION {{<<b, k>> : k \in DOMAIN T[b]} : b \in Branches}
CompAt(T, l) == T[l[1]][l[2]]
ProcPaths(T) == UNION {{l \o <<n>> : n \in TplProcs(CompAt(T, l).tpl)} : l \in Locs(T)}
StepPaths(T) == UNION {{l \o <<n>> : n \in TplSteps(CompAt(T, l).tpl)} : l \in Locs(T)}
DeriverPaths(T) == UNION {{l \o <<n>> : n \in TplDerivers(CompAt(T, l).tpl)} : l \in Locs(T)}
GraphDeps(T) ==
  [p \in StepPaths(T) \ DeriverPaths(T) |->
     {<<p[1], p[2], d>> : d \in TplDeps(CompAt(T, <<p[1], p[2]>>).tpl, p[3])}]
NComps(T) == Cardinality(Locs(T))

Without(f, k) == [j \in DOMAIN f \ {k} |-> f[j]]
With(f, k, v) == [j \in DOMAIN f \cup {k} |-> IF j = k THEN v ELSE f[j]]
RECURSIVE DropUnder(_, _)
DropUnder(s, l) ==
  IF s = <<>> THEN <<>>
  ELSE (IF Head(s)[1] = l[1] /\ Head(s)[2] = l[2] THEN <<>> ELSE <<Head(s)>>)
       \o DropUnder(Tail(s), l)

\* ---- the structural part of an update: (tree, eseq, origin) -> the same
\* S is a record [tree, eseq, origin]
DelS(S, b, k) ==
  [tree |-> [S.tree EXCEPT ![b] = Without(@, k)],
   eseq |-> DropUnder(S.eseq, <<b, k>>),
   origin |-> Without(S.origin, <<b, k>>)]
DeriverSeq(b, k, t) == CASE t \in {"T3", "T4"} -> <<<<b, k, "d">>>>
                         [] t = "T5" -> <<<<b, k, "d">>, <<b, k, "e">>>>
                         [] OTHER -> <<>>
PutS(S, b, k, comp, org) ==
  [tree |-> [S.tree EXCEPT ![b] = With(@, k, comp)],
   eseq |-> S.eseq \o DeriverSeq(b, k, comp.tpl),
   origin |-> With(S.origin, <<b, k>>, org)]
New == <<"new">>

Other(b) == IF b = "agents" THEN "pool" ELSE "agents"

\* applicability of an operation in tree T
Has(T, b, k) == k \in DOMAIN T[b]
OpOK(T, op) ==
  CASE op.op = "none"   -> TRUE
    [] op.op = "add"    -> ~Has(T, "agents", op.k)
    [] op.op = "addex"  -> Has(T, "agents", op.k)
    [] op.op \in {"del", "delpath"} -> Has(T, "agents", op.k)
    [] op.op = "gen"    -> ~Has(T, "agents", op.k)
    [] op.op \in {"div", "divx"} -> Has(T, "agents", op.k) /\ ~Has(T, "agents", op.d1)
                           /\ ~Has(T, "agents", op.d2) /\ op.d1 # op.d2
                           /\ op.d1 # op.k /\ op.d2 # op.k
    [] op.op \in {"move", "moveupd"} -> Has(T, "agents", op.k) /\ ~Has(T, "pool", op.k)
    [] op.op = "moveback" -> Has(T, "pool", op.k) /\ ~Has(T, "agents", op.k)
    [] op.op = "movegen" -> Has(T, "agents", op.k) /\ ~Has(T, "pool", op.k)
    [] op.op = "adddel" -> ~Has(T, "agents", op.k) /\ Has(T, "agents", op.k2) /\ op.k # op.k2
    [] op.op = "add2"   -> ~Has(T, "agents", op.k) /\ ~Has(T, "agents", op.k2) /\ op.k # op.k2
    [] op.op = "gendel" -> ~Has(T, "agents", op.k) /\ Has(T, "agents", op.k2) /\ op.k # op.k2
    [] op.op = "gen2"   -> ~Has(T, "agents", op.k) /\ ~Has(T, "pool", op.k2)
    [] op.op = "addleaf" -> op.k \notin DOMAIN leaves
    [] op.op = "delleaf" -> op.k \in DOMAIN leaves

LeavesAfter(L, op) ==
  CASE op.op = "addleaf" -> With(L, op.k, op.v)
    [] op.op = "delleaf" -> Without(L, op.k)
    [] OTHER -> L

Struct(S, op) ==
  CASE op.op \in {"none", "addleaf", "delleaf"} -> S
    [] op.op = "add" -> PutS(S, "agents", op.k, NewComp("T0", op.x0), New)
    [] op.op \in {"del", "delpath"} -> DelS(S, "agents", op.k)
    [] op.op = "gen" -> PutS(S, "agents", op.k, NewComp(op.tpl, op.x0), New)
    [] op.op = "div" ->
         LET m == S.tree["agents"][op.k]
             S1 == PutS(S, "agents", op.d1, NewComp(m.tpl, m.x), New)
             S2 == PutS(S1, "agents", op.d2, NewComp(m.tpl, m.x), New)
         IN DelS(S2, "agents", op.k)
    \* a division whose daughter entries list an initial state for x: the
    \* daughters hold what is listed, not what the mother's divider yields
    [] op.op = "divx" ->
         LET m == S.tree["agents"][op.k]
             S1 == PutS(S, "agents", op.d1, NewComp(m.tpl, op.x0), New)
             S2 == PutS(S1, "agents", op.d2, NewComp(m.tpl, op.x0), New)
         IN DelS(S2, "agents", op.k)
    [] op.op = "move" ->
         LET m == S.tree["agents"][op.k]
             S1 == PutS(S, "pool", op.k, m, <<"agents", op.k>>)
         IN DelS(S1, "agents", op.k)
    \* a move that carries an update for the node it moves (applied first)
    [] op.op = "moveupd" ->
         LET m == [S.tree["agents"][op.k] EXCEPT !.x = @ + 3]
             S1 == PutS(S, "pool", op.k, m, <<"agents", op.k>>)
         IN DelS(S1, "agents", op.k)
    [] op.op = "moveback" ->
         LET m == S.tree["pool"][op.k]
             S1 == PutS(S, "agents", op.k, m, <<"pool", op.k>>)
         IN DelS(S1, "pool", op.k)
    \* one update moving a compartment away and generating a new one under the
    \* same key (moves come before generations: both are carried out)
    [] op.op = "movegen" ->
         LET m == S.tree["agents"][op.k]
             S1 == PutS(S, "pool", op.k, m, <<"agents", op.k>>)
             S2 == DelS(S1, "agents", op.k)
         IN PutS(S2, "agents", op.k, NewComp(op.tpl, op.x0), New)
    \* two additions in one update, each sent through another port of the
    \* director wired to the same store: both are carried out
    [] op.op = "add2" ->
         PutS(PutS(S, "agents", op.k, NewComp("T0", op.x0), New),
              "agents", op.k2, NewComp("T0", op.x0), New)
    [] op.op = "adddel" ->
         DelS(PutS(S, "agents", op.k, NewComp("T0", op.x0), New), "agents", op.k2)
    [] op.op = "gendel" ->
         DelS(PutS(S, "agents", op.k, NewComp(op.tpl, op.x0), New), "agents", op.k2)
    \* one update generating a compartment below each of the two branches
    [] op.op = "gen2" ->
         PutS(PutS(S, "agents", op.k, NewComp(op.tpl, op.x0), New),
              "pool", op.k2, NewComp(op.tpl, op.x0), New)

\* the other processes' updates: +1 to x for every process invoked at the
\* start of the tick
BumpX(T, P) ==
  [b \in Branches |->
     [k \in DOMAIN T[b] |->
        IF <<b, k, "p">> \in P THEN [T[b][k] EXCEPT !.x = @ + 1] ELSE T[b][k]]]
\* ... applied after the director's structural update: the update of a process
\* follows its compartment where the same update batch has moved it (a
\* compartment that is new at a place gets nothing from the process that was
\* there before)
BumpMoved(S, P) ==
  [b \in Branches |->
     [k \in DOMAIN S.tree[b] |->
        LET o == S.origin[<<b, k>>]
        IN IF o # New /\ <<o[1], o[2], "p">> \in P
             THEN [S.tree[b][k] EXCEPT !.x = @ + 1] ELSE S.tree[b][k]]]
\* the step phase: every step in the hierarchy adds 1 to its counter, a
\* deriver as often as the engine has it registered
Occurs(s, p) == Cardinality({i \in 1..Len(s) : s[i] = p})
StepPhase(T, sq) ==
  [b \in Branches |->
     [k \in DOMAIN T[b] |->
        [T[b][k] EXCEPT !.cnt =
           [s \in DOMAIN @ |-> @[s] + (IF s \in TplDerivers(T[b][k].tpl)
                                          THEN Occurs(sq, <<b, k, s>>) ELSE 1)]]]]

\* what every step that ran, and has an upstream step, must have seen: the
\* upstream counter after this phase's increment
SeenOf(T, R) ==
  [p \in {r \in R : Upstream(CompAt(T, <<r[1], r[2]>>).tpl, r[3]) # "-"} |->
     CompAt(T, <<p[1], p[2]>>).cnt[Upstream(CompAt(T, <<p[1], p[2]>>).tpl, p[3])]]

Init ==
  /\ tree = [agents |-> <<>>, pool |-> <<>>]
  /\ eseq = <<>> /\ origin = <<>> /\ invoked = <<>>
  /\ leaves = <<>> /\ seen = <<>>
  /\ now = 0 /\ err = FALSE /\ lastop = [op |-> "none"] /\ lastmode = "proc"

Tick(op) ==
  /\ ~err /\ now < MaxTicks
  /\ OpOK(tree, op)
  /\ lastop' = op /\ lastmode' = "proc"
  /\ now' = now + 1
  /\ IF op.op = "addex"
       THEN /\ err' = TRUE
            /\ UNCHANGED <<tree, eseq, origin, invoked, leaves, seen>>
       ELSE LET P == ProcPaths(tree)
                S0 == [tree |-> tree, eseq |-> eseq,
                       origin |-> [l \in Locs(tree) |-> l]]
                S1 == Struct(S0, op)
                T2 == BumpMoved(S1, P)
                T3 == StepPhase(T2, S1.eseq)
            IN /\ NComps(S1.tree) <= MaxComps
               /\ tree' = T3
               /\ eseq' = S1.eseq
               /\ origin' = S1.origin
               /\ invoked' = [p \in P \cup StepPaths(T3) |->
                                IF p \in DeriverPaths(T3) THEN Occurs(S1.eseq, p) ELSE 1]
               /\ seen' = SeenOf(T3, StepPaths(T3))
               /\ leaves' = LeavesAfter(leaves, op)
               /\ err' = FALSE

(* The same operations issued by a *step* (a flow step without dependencies   *)
(* whose path sorts last in its layer).  The processes' updates are applied   *)
(* first; in the step phase the derivers run, then the first flow layer (all  *)
(* s1 of the compartments present when the phase began, then the director's   *)
(* structural update), then the second layer: the s2 that were there when the *)
(* phase began and still exist, each where it is now (a step that the         *)
(* director has moved runs at its new place).  Steps created during the phase *)
(* first run in the next one.                                                 *)
Bump(T, R) ==   \* +1 to the counter of every step path in R
  [b \in Branches |->
     [k \in DOMAIN T[b] |->
        [T[b][k] EXCEPT !.cnt = [s \in DOMAIN @ |-> @[s] + (IF <<b, k, s>> \in R THEN 1 ELSE 0)]]]]
SamePlace(S, l) == l \in DOMAIN S.origin /\ S.origin[l] = l

\* value of the variable the bystander step owns after t ticks (t + 1 step phases:
\* it adds 1 in the 1st, 3rd, 5th ... phase)
Bys(t) == (t + 2) \div 2

TickS(op) ==
  /\ ~err /\ now < MaxTicks
  /\ OpOK(tree, op) /\ op.op # "addex"
  /\ lastop' = op /\ lastmode' = "step"
  /\ now' = now + 1
  /\ LET P  == ProcPaths(tree)
         T1 == BumpX(tree, P)
         D  == DeriverPaths(T1)
         T2 == StepPhase(Bump(T1, {}), eseq)                  \* derivers only ...
         Td == [b \in Branches |-> [k \in DOMAIN T1[b] |->
                  [T1[b][k] EXCEPT !.cnt = [s \in DOMAIN @ |->
                      IF s \in TplDerivers(T1[b][k].tpl) THEN @[s] + Occurs(eseq, <<b, k, s>>) ELSE @[s]]]]]
         G0 == {p \in StepPaths(T1) \ D : p[3] = "s1"}
         Tg == Bump(Td, G0)
         S0 == [tree |-> Tg, eseq |-> eseq, origin |-> [l \in Locs(Tg) |-> l]]
         S1 == Struct(S0, op)
         \* the s2 that were there when the phase began run where they are now (a
         \* step that an earlier step of the phase has moved still exists: it runs
         \* at its new place; the s2 of a compartment that is new does not)
         G1 == {<<l[1], l[2], "s2">> : l \in
                  {m \in DOMAIN S1.origin :
                     /\ S1.origin[m] # New
                     /\ <<S1.origin[m][1], S1.origin[m][2], "s2">> \in StepPaths(T1) \ D}}
         T3 == Bump(S1.tree, G1)
         R  == {p \in D \cup G0 : TRUE} \cup G1
     IN /\ NComps(S1.tree) <= MaxComps
        /\ tree' = T3
        /\ eseq' = S1.eseq
        /\ origin' = S1.origin
        /\ invoked' = [p \in P \cup R |-> IF p \in D THEN Occurs(eseq, p) ELSE 1]
        \* a step that ran saw its upstream counter as it was when it ran
        /\ seen' = [p \in {r \in D \cup G0 : Upstream(CompAt(T1, <<r[1], r[2]>>).tpl, r[3]) # "-"}
                       \cup {r \in G1 : Upstream(CompAt(S1.tree, <<r[1], r[2]>>).tpl, r[3]) # "-"} |->
                      IF p \in G1
                        THEN CompAt(S1.tree, <<p[1], p[2]>>).cnt[
                               Upstream(CompAt(S1.tree, <<p[1], p[2]>>).tpl, p[3])]
                        ELSE CompAt(Tg, <<p[1], p[2]>>).cnt[
                               Upstream(CompAt(T1, <<p[1], p[2]>>).tpl, p[3])]]
        /\ leaves' = LeavesAfter(leaves, op)
        /\ err' = FALSE

Ops ==
  {[op |-> "none"]}
  \cup {[op |-> "add", k |-> k, x0 |-> x] : k \in Names, x \in {0, 5}}
  \cup {[op |-> "addex", k |-> k] : k \in Names}
  \cup {[op |-> o, k |-> k] : o \in {"del", "delpath", "move", "moveupd", "moveback"}, k \in Names}
  \cup {[op |-> "gen", k |-> k, tpl |-> t, x0 |-> x] : k \in Names, t \in Tpls, x \in {0, 5}}
  \cup {[op |-> "div", k |-> k, d1 |-> a, d2 |-> b] : k \in Names, a \in Names, b \in Names}
  \cup {[op |-> "divx", k |-> k, d1 |-> a, d2 |-> b, x0 |-> 7] : k \in Names, a \in Names, b \in Names}
  \cup {[op |-> "adddel", k |-> k, x0 |-> 5, k2 |-> j] : k \in Names, j \in Names}
  \cup {[op |-> "add2", k |-> k, x0 |-> 5, k2 |-> j] : k \in Names, j \in Names}
  \cup {[op |-> "gendel", k |-> k, tpl |-> t, x0 |-> 0, k2 |-> j] : k \in Names, t \in Tpls, j \in Names}
  \cup {[op |-> "gen2", k |-> k, tpl |-> t, x0 |-> 0, k2 |-> j] : k \in Names, t \in Tpls, j \in Names}
  \cup {[op |-> "movegen", k |-> k, tpl |-> t, x0 |-> 0] : k \in Names, t \in Tpls}
  \cup {[op |-> "addleaf", k |-> k, v |-> v] : k \in Names, v \in {0, 7}}
  \cup {[op |-> "delleaf", k |-> k] : k \in Names}

Next == \E op \in Ops : Tick(op) \/ TickS(op)
Spec == Init /\ [][Next]_vars

-----------------------------------------------------------------------------
(* Properties                                                               *)

\* C10: the legacy derivers the engine runs are exactly those in the
\* hierarchy, each registered once
C10_DeriversOnce ==
  /\ {eseq[i] : i \in 1..Len(eseq)} = DeriverPaths(tree)
  /\ \A i, j \in 1..Len(eseq) : i # j => eseq[i] # eseq[j]
\* C10: what ran in the last tick is exactly what was in the hierarchy
C10_RanExactlyHierarchy ==
  (now > 0 /\ ~err) =>
     \* every step in the hierarchy ran exactly once - except, when the phase
     \* itself changed the structure, those created or moved during it
     /\ \A p \in StepPaths(tree) :
           (lastmode = "proc" \/ SamePlace([origin |-> origin], <<p[1], p[2]>>))
              => (p \in DOMAIN invoked /\ invoked[p] = 1)
     /\ \A p \in DOMAIN invoked : invoked[p] = 1
\* C09 (frame): a compartment that the operation does not name keeps its
\* identity and its values apart from its own process' and steps' increments
Named(op) ==
  (IF "k" \in DOMAIN op THEN {op.k} ELSE {}) \cup (IF "k2" \in DOMAIN op THEN {op.k2} ELSE {})
  \cup (IF "d1" \in DOMAIN op THEN {op.d1, op.d2} ELSE {})
C09_Frame ==
  [][\A l \in Locs(tree) :
        (l[2] \notin Named(lastop') /\ ~err') =>
           /\ l \in Locs(tree') /\ origin'[l] = l
           /\ CompAt(tree', l).tpl = CompAt(tree, l).tpl
           /\ CompAt(tree', l).x = CompAt(tree, l).x
                 + (IF "p" \in TplProcs(CompAt(tree, l).tpl) THEN 1 ELSE 0)]_vars
\* C09 (effects)
\* the named compartment's own process has added 1 before a step's operation
\* is applied, and not yet when the (first-listed) director process' is
Own(cmp) == IF lastmode' = "step" /\ "p" \in TplProcs(cmp.tpl) THEN 1 ELSE 0
\* (a compartment that is moved keeps its process, whose update of this tick
\*  arrives whoever issued the move)
OwnMoved(cmp) == IF "p" \in TplProcs(cmp.tpl) THEN 1 ELSE 0
C09_Effects ==
  [][~err' =>
      LET op == lastop' IN
      /\ op.op \in {"add", "adddel"} =>
           (Has(tree', "agents", op.k) /\ tree'["agents"][op.k].tpl = "T0"
            /\ tree'["agents"][op.k].x = op.x0 /\ origin'[<<"agents", op.k>>] = New)
      /\ op.op = "add2" =>
           \A d \in {op.k, op.k2} :
              Has(tree', "agents", d) /\ tree'["agents"][d].tpl = "T0"
              /\ tree'["agents"][d].x = op.x0 /\ origin'[<<"agents", d>>] = New
      /\ op.op \in {"del", "delpath"} => ~Has(tree', "agents", op.k)
      /\ op.op \in {"adddel", "gendel"} => ~Has(tree', "agents", op.k2)
      /\ op.op = "gen2" =>
           (Has(tree', "agents", op.k) /\ Has(tree', "pool", op.k2)
            /\ tree'["pool"][op.k2].tpl = op.tpl /\ origin'[<<"pool", op.k2>>] = New)
      /\ op.op \in {"gen", "gendel", "gen2"} =>
           (Has(tree', "agents", op.k) /\ tree'["agents"][op.k].tpl = op.tpl
            /\ origin'[<<"agents", op.k>>] = New)
      /\ op.op = "div" =>
           (~Has(tree', "agents", op.k)
            /\ \A d \in {op.d1, op.d2} :
                  Has(tree', "agents", d) /\ origin'[<<"agents", d>>] = New
                  /\ tree'["agents"][d].tpl = tree["agents"][op.k].tpl
                  /\ tree'["agents"][d].x = tree["agents"][op.k].x + Own(tree["agents"][op.k]))
      /\ op.op = "divx" =>
           (~Has(tree', "agents", op.k)
            /\ \A d \in {op.d1, op.d2} :
                  Has(tree', "agents", d) /\ origin'[<<"agents", d>>] = New
                  /\ tree'["agents"][d].tpl = tree["agents"][op.k].tpl
                  /\ tree'["agents"][d].x = op.x0)
      /\ op.op = "moveupd" =>
           (~Has(tree', "agents", op.k) /\ Has(tree', "pool", op.k)
            /\ origin'[<<"pool", op.k>>] = <<"agents", op.k>>
            /\ tree'["pool"][op.k].x = tree["agents"][op.k].x + 3 + OwnMoved(tree["agents"][op.k]))
      /\ op.op = "move" =>
           (~Has(tree', "agents", op.k) /\ Has(tree', "pool", op.k)
            /\ origin'[<<"pool", op.k>>] = <<"agents", op.k>>
            /\ tree'["pool"][op.k].tpl = tree["agents"][op.k].tpl
            /\ tree'["pool"][op.k].x = tree["agents"][op.k].x + OwnMoved(tree["agents"][op.k]))
      /\ op.op = "moveback" =>
           (~Has(tree', "pool", op.k) /\ Has(tree', "agents", op.k)
            /\ origin'[<<"agents", op.k>>] = <<"pool", op.k>>)]_vars
\* C09: plain variables added to a branch hold the given state, whatever it is
C09_Leaves ==
  [][~err' =>
      /\ lastop'.op = "addleaf" => (lastop'.k \in DOMAIN leaves' /\ leaves'[lastop'.k] = lastop'.v)
      /\ lastop'.op = "delleaf" => lastop'.k \notin DOMAIN leaves'
      /\ lastop'.op \notin {"addleaf", "delleaf"} => leaves' = leaves
      /\ \A k \in DOMAIN leaves \cap DOMAIN leaves' : leaves'[k] = leaves[k]]_vars
\* C09: adding an existing key is rejected
C09_AddExistingRejected == [][lastop'.op = "addex" => err']_vars
TypeOK == now \in 0..MaxTicks /\ DOMAIN tree = Branches
=============================================================================
