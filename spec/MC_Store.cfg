SPECIFICATION Spec
CONSTANTS
  Names = {"a", "b", "c"}
  Tpls = {"T1", "T2", "T3"}
  MaxTicks = 3
  MaxComps = 3
CHECK_DEADLOCK FALSE
INVARIANTS
  TypeOK
  C10_DeriversOnce
  C10_RanExactlyHierarchy
PROPERTIES
  C09_Frame
  C09_Effects
  C09_AddExistingRejected
  C09_Leaves
