INIT TInit
NEXT TNext
CONSTANTS
  Workers = {"w1", "w2", "w3", "w4", "w5", "w6", "w7", "w8"}
  Dev = {}
  MaxCmds = 100000
CONSTRAINT Mark
POSTCONDITION Post
CHECK_DEADLOCK FALSE
INVARIANTS
  C13_EndedMeansExited
