----------------------------- MODULE Breakdown -----------------------------
(***************************************************************************)
(* Chunking of large emits (DatabaseEmitter.write_emit -> breakdown_data,  *)
(* read back through assemble_data).  Not one of the listed properties: it *)
(* extends C12 ("the emitted history is faithful") to the emitter that     *)
(* cannot store a row in one piece.                                        *)
(*                                                                         *)
(* A datum is a tree of dictionaries whose leaves have a size.  breakdown  *)
(* with a limit returns pieces <<path, subtree>>; writing each piece under *)
(* its path and merging the results (assemble_data) must give back the     *)
(* datum, except for the leaves that are larger than the limit on their    *)
(* own (they cannot be stored at all and are skipped with a message).      *)
(* The algorithm below is the library's: when a dictionary is too large,   *)
(* its largest entries are split off (and broken down in turn) until the   *)
(* rest fits.  The size of a dictionary is taken as the sum of the sizes   *)
(* of its entries (the library measures len(str(...)), which adds          *)
(* punctuation: where exactly a dictionary is cut is therefore not bound   *)
(* to the implementation - the laws hold for every cut).                   *)
(***************************************************************************)
EXTENDS Naturals, Sequences, FiniteSets, TLC, Json, IOUtils, SequencesExt, FiniteSetsExt

CONSTANTS Sizes,     \* sizes a leaf may have
          Limits     \* emit limits

Keys == {"a", "b", "c"}
\* a datum: a prefix-free set of leaf paths (length 1..2) with sizes
LeafPaths == {<<k>> : k \in Keys} \cup {<<k, j>> : k \in {"a", "b"}, j \in {"a", "b"}}
IsPrefixOf(p, q) == Len(p) <= Len(q) /\ SubSeq(q, 1, Len(p)) = p
PrefixFree(S) == \A p, q \in S : p # q => ~IsPrefixOf(p, q)
Shapes == {S \in SUBSET LeafPaths : S # {} /\ Cardinality(S) <= 4 /\ PrefixFree(S)}
Data == UNION {[S -> Sizes] : S \in Shapes}

Below(d, path) == {p \in DOMAIN d : IsPrefixOf(path, p)}
Size(d, path) == LET RECURSIVE Sum(_)
                     Sum(S) == IF S = {} THEN 0
                               ELSE LET p == CHOOSE x \in S : TRUE IN d[p] + Sum(S \ {p})
                 IN Sum(Below(d, path))
IsLeaf(d, path) == path \in DOMAIN d
Children(d, path) == {p[Len(path) + 1] : p \in Below(d, path) \ {path}}

\* the keys split off: the largest first, until the rest fits
RECURSIVE Large(_, _, _, _)
Large(d, path, todo, remaining) ==
  IF remaining <= 0 \/ todo = {} THEN {}
  ELSE LET k == CHOOSE x \in todo :
                  \A y \in todo : Size(d, Append(path, x)) >= Size(d, Append(path, y))
       IN {k} \cup Large(d, path, todo \ {k}, remaining - Size(d, Append(path, k)))
LargeKeys(d, path, limit) ==
  Large(d, path, Children(d, path), Size(d, path) - limit)

\* pieces: <<path, set of leaf paths stored with that piece>>
RECURSIVE Break(_, _, _)
Break(d, path, limit) ==
  IF Size(d, path) <= limit THEN {<<path, Below(d, path)>>}
  ELSE IF IsLeaf(d, path) THEN {}                      \* too large on its own: skipped
  ELSE LET L == LargeKeys(d, path, limit)
       IN UNION {Break(d, Append(path, k), limit) : k \in L}
          \cup {<<path, {p \in Below(d, path) : p[Len(path) + 1] \notin L}>>}

Stored(d, limit) == UNION {pc[2] : pc \in Break(d, <<>>, limit)}
Storable(d, limit) == {p \in DOMAIN d : d[p] <= limit}

VARIABLE c
Init == c \in [d : Data, limit : Limits]
Next == UNCHANGED c

\* nothing that fits is lost, nothing that does not fit is stored
LawAssembleGivesBack == Stored(c.d, c.limit) = Storable(c.d, c.limit)
\* no leaf is stored twice (assemble_data would find two values for it)
LawPiecesDisjoint ==
  \A x, y \in Break(c.d, <<>>, c.limit) : x # y => x[2] \cap y[2] = {}
\* every piece holds only what lies below its path
LawPieceUnderPath ==
  \A x \in Break(c.d, <<>>, c.limit) : \A p \in x[2] : IsPrefixOf(x[1], p)
\* (abstract sizes) every piece fits
LawPiecesFit ==
  \A x \in Break(c.d, <<>>, c.limit) :
     LET RECURSIVE Sum(_)
         Sum(S) == IF S = {} THEN 0 ELSE LET p == CHOOSE z \in S : TRUE IN c.d[p] + Sum(S \ {p})
     IN Sum(x[2]) <= c.limit

Entry(cs) == [leaves |-> {<<p, cs.d[p]>> : p \in DOMAIN cs.d}, limit |-> cs.limit,
              stored |-> Storable(cs.d, cs.limit)]
Export ==
  /\ TLCGet("stats").generated >= 0
  /\ JsonSerialize(IOEnv.OUT_FILE, SetToSeq({Entry(cs) : cs \in [d : Data, limit : Limits]}))
=============================================================================
