------------------------------- MODULE Engine -------------------------------
(***************************************************************************)
(* Specification of the vivarium-core scheduler (Engine.run_for / update,  *)
(* Engine._send_updates, Engine.run_steps, Engine._emit_store_data).       *)
(*                                                                         *)
(* One action per critical section of the implementation:                  *)
(*   Call        entry of run_for(interval, force_complete)                *)
(*   LoopHead    `while global_time < end_time or force_complete` test,    *)
(*               _remove_deleted_processes, new paths enter the front      *)
(*   PollBusy / PollInvoke / PollQuiet / PollDefer                         *)
(*               one iteration of the `for path, process` loop             *)
(*   PollDone    end of that loop                                          *)
(*   AdvanceJump / AdvanceStep / AdvanceEnd                                *)
(*               the three branches that move global_time                  *)
(*   ApplyOne    one Defer.get() + Store.apply_update in _send_updates     *)
(*   ApplyDone   end of the batch; step phase and emission follow          *)
(*   StepsBegin / StepInvoke / LayerApply / StepsEnd   run_steps           *)
(*   Emit        _emit_store_data bookkeeping                              *)
(*                                                                         *)
(* The module specifies the behaviour the properties C01-C05, C10, C12     *)
(* require.  The behaviours of the pinned tree that violate them are kept  *)
(* as named deviations, enabled by membership of their name in Dev:        *)
(*   "UntruncatedTs"   forced completion cuts the interval but hands the   *)
(*                     full requested timestep                 (C02)       *)
(*   "StaleJump"       when nothing ran, jump to the minimum front time    *)
(*                     even when it is not in the future       (C03)       *)
(*   "QuietStuck"      quiet fronts advanced only in the middle branch     *)
(*                                                             (C03)       *)
(*   "Repoll"          a deferred process is asked for a timestep again    *)
(*                     and the new answer is used              (C03)       *)
(* Times are natural numbers (ticks).                                      *)
(***************************************************************************)
EXTENDS Naturals, Integers, Sequences, FiniteSets, TLC

CONSTANTS
  Procs,      \* universe of process names
  Steps,      \* universe of step names
  Vars,       \* universe of variable names
  TS,         \* timesteps a process may answer when polled
  Intervals,  \* intervals a caller may pass to run_for
  MaxCalls,   \* number of run_for calls explored
  Horizon,    \* no call ends after this time
  Dev         \* enabled deviations (empty: the specified engine)

Inf == 999999
Min(a, b) == IF a < b THEN a ELSE b
Max(a, b) == IF a > b THEN a ELSE b
MinOf(S) == CHOOSE x \in S : \A y \in S : x <= y
MaxOf(S) == CHOOSE x \in S : \A y \in S : x >= y

VARIABLES
  now,       \* Engine.global_time
  endT,      \* end_time of the current call
  force,     \* force_complete (reset when the end is reached)
  lastForce, \* force_complete as passed to the current / last call
  pc,        \* position in the code
  calls,     \* number of calls made
  live,      \* processes in the hierarchy (Engine.process_paths)
  front,     \* Engine.front: function on a subset of Procs
  toPoll,    \* processes not yet visited in this poll pass
  fullStep,  \* full_step
  quiet,     \* quiet_paths
  due,       \* updates collected for this batch, not yet applied
  val,       \* committed values of the variables
  ver,       \* number of commits so far (one per applied update)
  pver,      \* ver at the start of the current poll pass / step layer
  entry,     \* time at which a process entered the simulation
  skipped,   \* simulated time a process spent quiet
  sumTs,     \* sum of the timesteps of the applied updates of a process
  emitStep,  \* Engine(emit_step=...), never changes
  emitNext,  \* emit_time
  lastRow,   \* time key of the last history row (-1: none)
  rowsAt,    \* number of rows emitted since the last batch started
  \* ---- step phase
  liveSteps, \* steps in the hierarchy (Engine._step_paths)
  deps,      \* flow: step -> set of steps it depends on (graph steps)
  seqSteps,  \* legacy derivers, in declaration order (sequence)
  layers,    \* remaining layers of the running phase
  layerTodo, \* steps of the current layer not yet invoked
  staged,    \* invoked steps of the current layer, in invocation order
  ranPhase,  \* steps applied so far in the running phase
  invPhase,  \* steps invoked so far in the running phase
  phaseSet,  \* steps that existed when the running phase began
  phases,    \* number of completed step phases
  \* ---- structural updates of the process set
  fresh,     \* processes created since the last loop head
  sops       \* structural operation carried by the update in flight of a process

sched == <<now, endT, force, lastForce, pc, calls, live, front, toPoll,
           fullStep, quiet, due>>
data  == <<val, ver, pver, entry, skipped, sumTs>>
emitv == <<emitStep, emitNext, lastRow, rowsAt>>
stepv == <<liveSteps, deps, seqSteps, layers, layerTodo, staged, ranPhase,
           invPhase, phaseSet, phases>>
structv == <<fresh, sops>>
vars  == <<sched, data, emitv, stepv, structv>>

NoOp == [op |-> "none", q |-> "-"]

NoUpd == [v \in {} |-> 0]

EmptyFront(t) ==
  [time |-> t, pend |-> "none", ts |-> 0, start |-> t, dts |-> 0,
   uid |-> 0, upd |-> NoUpd]

-----------------------------------------------------------------------------
(* Step graph: execution layers                                            *)

\* generation of a graph step: 0 if it has no (live) dependency
RECURSIVE Gen(_, _, _)
Gen(s, D, S) ==
  LET ds == D[s] \cap S
  IN IF ds = {} THEN 0 ELSE 1 + MaxOf({Gen(d, D, S) : d \in ds})

GraphSteps(S, sq) == S \ {sq[i] : i \in 1..Len(sq)}

\* sequence of sets: one singleton per sequential step (declaration order),
\* then the topological generations of the dependency graph
LayersOf(S, D, sq) ==
  LET G == GraphSteps(S, sq)
      n == IF G = {} THEN 0 ELSE 1 + MaxOf({Gen(s, D, G) : s \in G})
      seqL == [i \in 1..Len(sq) |-> {sq[i]}]
      genL == [i \in 1..n |-> {s \in G : Gen(s, D, G) = i - 1}]
  IN seqL \o genL

\* transitive dependencies
RECURSIVE TransDeps(_, _)
TransDeps(s, D) == D[s] \cup UNION {TransDeps(d, D) : d \in D[s]}

-----------------------------------------------------------------------------
(* Initial state: an engine has been constructed (the constructor's step    *)
(* phase and the initial row are modelled by ConstructSteps / see Init).    *)

InitWith(L, V0, LS, D, SQ, ES, T0) ==
  /\ now = T0 /\ endT = T0 /\ force = FALSE /\ lastForce = FALSE
  /\ pc = "construct" /\ calls = 0
  /\ live = L
  /\ front = [p \in L |-> EmptyFront(T0)]
  /\ toPoll = {} /\ fullStep = Inf /\ quiet = {} /\ due = {}
  /\ val = V0 /\ ver = 0 /\ pver = 0
  /\ entry = [p \in Procs |-> T0]
  /\ skipped = [p \in Procs |-> 0]
  /\ sumTs = [p \in Procs |-> 0]
  /\ emitStep = ES /\ emitNext = T0 /\ lastRow = -1 /\ rowsAt = 0
  /\ liveSteps = LS /\ deps = D /\ seqSteps = SQ
  /\ layers = <<>> /\ layerTodo = {} /\ staged = <<>>
  /\ ranPhase = {} /\ invPhase = {} /\ phaseSet = {} /\ phases = 0
  /\ fresh = {} /\ sops = [p \in Procs |-> NoOp]

-----------------------------------------------------------------------------
(* run_for entry                                                           *)

Call(iv, f) ==
  /\ UNCHANGED structv
  /\ pc = "idle" /\ calls < MaxCalls /\ now + iv <= Horizon
  /\ endT' = now + iv /\ force' = f /\ lastForce' = f
  /\ calls' = calls + 1 /\ pc' = "loop"
  /\ emitNext' = now + emitStep
  /\ UNCHANGED <<now, live, front, toPoll, fullStep, quiet, due, data,
                 emitStep, lastRow, rowsAt, stepv>>

(* loop test; dead paths leave the front, new paths enter it at `now`      *)
LoopHead ==
  /\ pc = "loop"
  /\ IF now < endT \/ force
       THEN /\ pc' = "poll"
            /\ front' = [p \in live |->
                           IF p \in DOMAIN front /\ p \notin fresh THEN front[p]
                           ELSE EmptyFront(now)]
            /\ entry' = [p \in Procs |->
                           IF p \in live /\ (p \notin DOMAIN front \/ p \in fresh)
                             THEN now ELSE entry[p]]
            /\ skipped' = [p \in Procs |->
                           IF p \in live /\ (p \notin DOMAIN front \/ p \in fresh)
                             THEN 0 ELSE skipped[p]]
            /\ sumTs' = [p \in Procs |->
                           IF p \in live /\ (p \notin DOMAIN front \/ p \in fresh)
                             THEN 0 ELSE sumTs[p]]
            /\ fresh' = {} /\ UNCHANGED sops
            /\ toPoll' = live /\ fullStep' = Inf /\ quiet' = {}
            /\ pver' = ver
       ELSE /\ pc' = "idle"
            /\ UNCHANGED <<front, entry, skipped, sumTs, toPoll, fullStep,
                           quiet, pver, structv>>
  /\ UNCHANGED <<now, endT, force, lastForce, calls, live, due, val, ver,
                 emitv, stepv>>

-----------------------------------------------------------------------------
(* The poll pass.  ts is the answer of calculate_timestep, or the binding   *)
(* deferred timestep of a process whose interval did not fit an earlier     *)
(* call (then calculate_timestep is not asked again).                       *)

IsDeferred(p) == front[p].dts # 0 /\ "Repoll" \notin Dev
Ets(p, ts)    == IF IsDeferred(p) THEN front[p].dts ELSE ts

\* ets: the effective timestep (Ets above for the bounded model)
FutureOf(p, ets) == IF force THEN Min(front[p].time + ets, endT)
                             ELSE front[p].time + ets
HandedOf(p, ets) == IF "UntruncatedTs" \in Dev THEN ets
                    ELSE FutureOf(p, ets) - front[p].time
Future(p, ts) == FutureOf(p, Ets(p, ts))
Handed(p, ts) == HandedOf(p, Ets(p, ts))

Polling(p) == pc = "poll" /\ p \in toPoll
IsDue(p)   == front[p].time <= now

PollBusy(p) ==
  /\ UNCHANGED structv
  /\ Polling(p) /\ ~IsDue(p)
  /\ toPoll' = toPoll \ {p}
  /\ fullStep' = Min(fullStep, front[p].time - now)
  /\ UNCHANGED <<now, endT, force, lastForce, pc, calls, live, front, quiet,
                 due, data, emitv, stepv>>

(* the process meets its condition: its update u is computed now, for the  *)
(* interval [front.time, Future], and stays in flight until Future          *)
PollInvokeWith(p, ets, u, id, op) ==
  /\ sops' = [sops EXCEPT ![p] = op] /\ UNCHANGED fresh
  /\ Polling(p) /\ IsDue(p)
  /\ FutureOf(p, ets) <= endT
  /\ toPoll' = toPoll \ {p}
  /\ front' = [front EXCEPT ![p] =
                 [time |-> FutureOf(p, ets), pend |-> "upd",
                  ts |-> HandedOf(p, ets), start |-> front[p].time, dts |-> 0,
                  uid |-> id, upd |-> u]]
  /\ fullStep' = Min(fullStep, FutureOf(p, ets) - now)
  /\ UNCHANGED <<now, endT, force, lastForce, pc, calls, live, quiet, due,
                 val, ver, pver, entry, skipped, sumTs, emitv, stepv>>
PollInvoke(p, ts, u, id) == PollInvokeWith(p, Ets(p, ts), u, id, NoOp)
PollInvokeS(p, ts, u, id, op) == PollInvokeWith(p, Ets(p, ts), u, id, op)

(* the process does not meet its condition: it contributes nothing and is  *)
(* advanced to the time of the next event                                   *)
PollQuietWith(p, ets) ==
  /\ UNCHANGED structv
  /\ Polling(p) /\ IsDue(p)
  /\ FutureOf(p, ets) <= endT
  /\ toPoll' = toPoll \ {p}
  /\ front' = [front EXCEPT ![p].pend = "quiet", ![p].dts = 0]
  /\ quiet' = quiet \cup {p}
  /\ UNCHANGED <<now, endT, force, lastForce, pc, calls, live, fullStep, due,
                 data, emitv, stepv>>
PollQuiet(p, ts) == PollQuietWith(p, Ets(p, ts))

(* the interval does not fit into this (non-forced) call                    *)
PollDeferWith(p, ets) ==
  /\ UNCHANGED structv
  /\ Polling(p) /\ IsDue(p)
  /\ FutureOf(p, ets) > endT
  /\ toPoll' = toPoll \ {p}
  /\ front' = [front EXCEPT ![p].dts = ets]
  /\ fullStep' = Min(fullStep, FutureOf(p, ets) - now)
  /\ UNCHANGED <<now, endT, force, lastForce, pc, calls, live, quiet, due,
                 data, emitv, stepv>>
PollDefer(p, ts) == PollDeferWith(p, Ets(p, ts))

PollDone ==
  /\ UNCHANGED structv
  /\ pc = "poll" /\ toPoll = {}
  /\ pc' = "advance"
  /\ UNCHANGED <<now, endT, force, lastForce, calls, live, front, toPoll,
                 fullStep, quiet, due, data, emitv, stepv>>

-----------------------------------------------------------------------------
(* Advancing the clock                                                      *)

FinishIter(n) == force' = (force /\ n # endT)

AdvanceQuiet(n) ==
  /\ front' = [p \in DOMAIN front |->
                 IF p \in quiet
                   THEN [front[p] EXCEPT !.time = n, !.pend = "none", !.start = n]
                   ELSE front[p]]
  /\ skipped' = [p \in Procs |->
                   IF p \in quiet THEN skipped[p] + (n - front[p].time)
                   ELSE skipped[p]]

(* nothing ran and nothing is in flight: every polled process was quiet     *)
AdvanceJump ==
  /\ UNCHANGED structv
  /\ pc = "advance" /\ fullStep = Inf
  /\ LET cands == {endT} \cup
                  {front[p].time : p \in
                     IF "StaleJump" \in Dev THEN DOMAIN front
                     ELSE {q \in DOMAIN front : front[q].time > now}}
         n == MinOf(cands)
     IN /\ now' = n
        /\ IF "QuietStuck" \in Dev THEN UNCHANGED <<front, skipped>>
                                   ELSE AdvanceQuiet(n)
        /\ FinishIter(n)
  /\ pc' = "loop"
  /\ UNCHANGED <<endT, lastForce, calls, live, toPoll, fullStep, quiet, due,
                 val, ver, pver, entry, sumTs, emitv, stepv>>

(* the nearest event lies within the call: go there and apply what is due   *)
AdvanceStep ==
  /\ UNCHANGED structv
  /\ pc = "advance" /\ fullStep # Inf /\ now + fullStep <= endT
  /\ LET n == now + fullStep
     IN /\ now' = n
        /\ AdvanceQuiet(n)
        /\ due' = {p \in DOMAIN front :
                     front[p].time <= n /\ front[p].pend = "upd"}
        /\ FinishIter(n)
  /\ pc' = "apply" /\ rowsAt' = 0
  /\ UNCHANGED <<endT, lastForce, calls, live, toPoll, fullStep, quiet,
                 val, ver, pver, entry, sumTs, emitStep, emitNext, lastRow,
                 stepv>>

(* every pending event lies beyond the end of the call                      *)
AdvanceEnd ==
  /\ UNCHANGED structv
  /\ pc = "advance" /\ fullStep # Inf /\ now + fullStep > endT
  /\ now' = endT
  /\ IF "QuietStuck" \in Dev THEN UNCHANGED <<front, skipped>>
                             ELSE AdvanceQuiet(endT)
  /\ FinishIter(endT)
  /\ pc' = "loop"
  /\ UNCHANGED <<endT, lastForce, calls, live, toPoll, fullStep, quiet, due,
                 val, ver, pver, entry, sumTs, emitv, stepv>>

-----------------------------------------------------------------------------
(* Applying the batch                                                       *)

ApplyUpd(v, u) ==
  [x \in DOMAIN v |-> IF x \in DOMAIN u THEN v[x] + u[x] ELSE v[x]]

\* the process set after the structural operation op
LiveAfter(L, op) ==
  CASE op.op = "del" -> L \ {op.q}
    [] op.op = "add" -> L \cup {op.q}
    [] OTHER -> L

(* one update of the batch is applied; it may carry a structural operation  *)
(* on the process set: a deleted process loses an update that is still in    *)
(* flight (one already collected for this batch stays in `due`), a created   *)
(* process starts afresh at the next loop head                               *)
\* a created process declares its variables: those that do not exist yet
\* appear with their default 0 (op.vars is given by recorded operations)
NewVars(op) == IF op.op = "add" /\ "vars" \in DOMAIN op
                 THEN {op.vars[i] : i \in 1..Len(op.vars)} ELSE {}
Declare(v, op) == [x \in DOMAIN v \cup NewVars(op) |-> IF x \in DOMAIN v THEN v[x] ELSE 0]

ApplyOne(p) ==
  /\ pc = "apply" /\ p \in due
  /\ due' = due \ {p}
  /\ val' = Declare(ApplyUpd(val, front[p].upd), sops[p])
  /\ ver' = ver + 1
  /\ sumTs' = [sumTs EXCEPT ![p] = @ + front[p].ts]
  /\ LET op == sops[p] IN
       /\ live' = LiveAfter(live, op)
       /\ fresh' = IF op.op = "add" THEN fresh \cup {op.q}
                    ELSE IF op.op = "del" THEN fresh \ {op.q} ELSE fresh
       /\ front' = [x \in DOMAIN front |->
                      IF x = p THEN [front[p] EXCEPT !.pend = "none", !.upd = NoUpd,
                                                     !.start = front[p].time]
                      ELSE IF op.op = "del" /\ x = op.q /\ x \notin due
                        THEN [front[x] EXCEPT !.pend = "none", !.upd = NoUpd]
                      ELSE front[x]]
  /\ sops' = [sops EXCEPT ![p] = NoOp]
  /\ UNCHANGED <<now, endT, force, lastForce, pc, calls, toPoll,
                 fullStep, quiet, pver, entry, skipped, emitv,
                 stepv>>

\* the update of a process that was deleted earlier in this batch may also
\* be discarded instead of being applied
DropDue(p) ==
  /\ pc = "apply" /\ p \in due /\ p \notin live
  /\ due' = due \ {p}
  /\ front' = [front EXCEPT ![p].pend = "none", ![p].upd = NoUpd]
  /\ sops' = [sops EXCEPT ![p] = NoOp]
  /\ UNCHANGED <<now, endT, force, lastForce, pc, calls, live, toPoll, fullStep,
                 quiet, data, emitv, stepv, fresh>>

ApplyDone ==
  /\ UNCHANGED structv
  /\ pc = "apply" /\ due = {}
  /\ pc' = "steps"
  /\ UNCHANGED <<now, endT, force, lastForce, calls, live, front, toPoll,
                 fullStep, quiet, due, data, emitv, stepv>>

-----------------------------------------------------------------------------
(* The step phase (run_steps): at construction and after every batch        *)

StepsBegin ==
  /\ UNCHANGED structv
  /\ pc \in {"steps", "construct"}
  /\ layers' = LayersOf(liveSteps, deps, seqSteps)
  /\ phaseSet' = liveSteps
  /\ ranPhase' = {} /\ invPhase' = {}
  /\ layerTodo' = {} /\ staged' = <<>>
  /\ pc' = IF pc = "construct" THEN "csteps" ELSE "layer"
  /\ UNCHANGED <<now, endT, force, lastForce, calls, live, front, toPoll,
                 fullStep, quiet, due, data, emitv, liveSteps, deps,
                 seqSteps, phases>>

InSteps == pc \in {"layer", "csteps"}

\* open the next layer: its steps that still exist are to be invoked
LayerOpen ==
  /\ UNCHANGED structv
  /\ InSteps /\ layerTodo = {} /\ staged = <<>> /\ layers # <<>>
  /\ layerTodo' = Head(layers) \cap liveSteps
  /\ layers' = Tail(layers)
  /\ pver' = ver
  /\ UNCHANGED <<sched, val, ver, entry, skipped, sumTs, emitv,
                 liveSteps, deps, seqSteps, staged, ranPhase, invPhase,
                 phaseSet, phases>>

\* a step is invoked with timestep 0; its update u is staged
StepInvoke(s, u, id) ==
  /\ UNCHANGED structv
  /\ InSteps /\ s \in layerTodo
  /\ layerTodo' = layerTodo \ {s}
  /\ staged' = Append(staged, [step |-> s, upd |-> u, uid |-> id])
  /\ invPhase' = invPhase \cup {s}
  /\ UNCHANGED <<sched, data, emitv, liveSteps, deps, seqSteps, layers,
                 ranPhase, phaseSet, phases>>

\* the staged updates of the layer are applied, in invocation order
LayerApplyOne ==
  /\ UNCHANGED structv
  /\ InSteps /\ layerTodo = {} /\ staged # <<>>
  /\ val' = ApplyUpd(val, Head(staged).upd)
  /\ ver' = ver + 1
  /\ ranPhase' = ranPhase \cup {Head(staged).step}
  /\ staged' = Tail(staged)
  /\ UNCHANGED <<sched, pver, entry, skipped, sumTs, emitv,
                 liveSteps, deps, seqSteps, layers, layerTodo, invPhase,
                 phaseSet, phases>>

StepsEnd ==
  /\ UNCHANGED structv
  /\ InSteps /\ layerTodo = {} /\ staged = <<>> /\ layers = <<>>
  /\ phases' = phases + 1
  /\ ranPhase' = {} /\ invPhase' = {}
  /\ pc' = IF pc = "csteps" THEN "cemit" ELSE "emit"
  /\ UNCHANGED <<now, endT, force, lastForce, calls, live, front, toPoll,
                 fullStep, quiet, due, data, emitv, liveSteps, deps,
                 seqSteps, layers, layerTodo, staged, phaseSet>>

-----------------------------------------------------------------------------
(* Emission.  With emit_step = 1 one row per batch.  Otherwise one row when *)
(* a deadline has passed, however many deadlines the batch passed.          *)

EmitInitial ==
  /\ UNCHANGED structv
  /\ pc = "cemit"
  /\ lastRow' = now /\ rowsAt' = 1
  /\ pc' = "idle"
  /\ UNCHANGED <<now, endT, force, lastForce, calls, live, front, toPoll,
                 fullStep, quiet, due, data, emitStep, emitNext, stepv>>

Emit ==
  /\ UNCHANGED structv
  /\ pc = "emit"
  /\ IF emitStep = 1
       THEN /\ lastRow' = now /\ rowsAt' = 1 /\ UNCHANGED emitNext
       ELSE IF emitNext <= now
         THEN /\ lastRow' = now /\ rowsAt' = 1
              /\ emitNext' = emitNext + emitStep * (1 + (now - emitNext) \div emitStep)
         ELSE UNCHANGED <<lastRow, rowsAt, emitNext>>
  /\ pc' = "loop"
  /\ UNCHANGED <<now, endT, force, lastForce, calls, live, front, toPoll,
                 fullStep, quiet, due, data, emitStep, stepv>>


-----------------------------------------------------------------------------
(* The environment of the bounded model: what processes and steps answer.   *)
(* Every process p owns a clock variable named p to which it adds the       *)
(* timestep it was handed; processes in SharedW also add 1 to "s".  Every   *)
(* step s adds 1 to its own counter variable named s.                       *)

CONSTANTS SharedW, Directors, Spare

\* structural operations a director may attach to an update
StructOps(p) ==
  IF p \notin Directors THEN {NoOp}
  ELSE {NoOp} \cup {[op |-> "del", q |-> q] : q \in (live \ {p})}
              \cup {[op |-> "add", q |-> q] : q \in {x \in Spare : x \notin live /\ val[x] = 0}}

ProcUpd(p, h) ==
  [v \in ({p} \cup IF p \in SharedW THEN {"s"} ELSE {}) |->
     IF v = p THEN h ELSE 1]
StepUpd(s) == [v \in {s} |-> 1]

Next ==
  \/ \E iv \in Intervals, f \in BOOLEAN : Call(iv, f)
  \/ LoopHead
  \/ \E p \in Procs : PollBusy(p)
  \/ \E p \in Procs, ts \in TS :
        \/ \E op \in StructOps(p) : PollInvokeS(p, ts, ProcUpd(p, Handed(p, ts)), 0, op)
        \/ PollQuiet(p, ts)
        \/ PollDefer(p, ts)
  \/ PollDone
  \/ AdvanceJump \/ AdvanceStep \/ AdvanceEnd
  \/ \E p \in Procs : ApplyOne(p) \/ DropDue(p)
  \/ ApplyDone
  \/ StepsBegin \/ LayerOpen \/ LayerApplyOne \/ StepsEnd
  \/ \E s \in Steps : StepInvoke(s, StepUpd(s), 0)
  \/ EmitInitial \/ Emit

\* everything except the caller's decision to make another call
Internal ==
  \/ LoopHead
  \/ \E p \in Procs : PollBusy(p)
  \/ \E p \in Procs, ts \in TS :
        \/ \E op \in StructOps(p) : PollInvokeS(p, ts, ProcUpd(p, Handed(p, ts)), 0, op)
        \/ PollQuiet(p, ts)
        \/ PollDefer(p, ts)
  \/ PollDone
  \/ AdvanceJump \/ AdvanceStep \/ AdvanceEnd
  \/ \E p \in Procs : ApplyOne(p) \/ DropDue(p)
  \/ ApplyDone
  \/ StepsBegin \/ LayerOpen \/ LayerApplyOne \/ StepsEnd
  \/ \E s \in Steps : StepInvoke(s, StepUpd(s), 0)
  \/ EmitInitial \/ Emit

-----------------------------------------------------------------------------
(* Properties.  Names carry the id of the property they formalise.          *)

Pending(p) == p \in DOMAIN front /\ front[p].pend = "upd"

\* C01: an update is applied exactly at the end of its interval: whenever
\* the engine is not in the middle of a batch, everything in flight ends in
\* the future, and what is being applied ends now
C01_OnTime ==
  /\ pc \in {"loop", "poll", "idle"} =>
        \A p \in DOMAIN front : Pending(p) => front[p].time > now
  /\ \A p \in due : front[p].time = now
\* C01: at most one update of a process is outstanding and ApplyOne consumes
\* it (exactly once is then structural: pend goes back to "none")
C01_ApplyConsumes ==
  [][\A p \in Procs : (p \in due /\ p \notin due') =>
        (front'[p].pend = "none" /\ ver' = ver + 1)]_vars
\* C01: nothing is in flight when a call has returned
C01_NothingInFlightAtReturn ==
  pc = "idle" => \A p \in DOMAIN front : front[p].pend = "none"
\* C01 (ledger): the clock variable of a process holds the sum of the
\* timesteps of its applied updates; the shared variable counts them
C01_Ledger ==
  /\ \A p \in live \cap DOMAIN front : val[p] = sumTs[p]
\* C01: quiet processes contribute nothing: val changes only in ApplyOne /
\* LayerApplyOne
C01_OnlyApplyChangesState ==
  [][val' # val => pc \in {"apply", "layer", "csteps"}]_vars

\* C02: the timestep handed equals the length of the interval
C02_TsIsIntervalLength ==
  \A p \in DOMAIN front :
     Pending(p) => front[p].ts = front[p].time - front[p].start
\* C02: handed timesteps sum to the simulated time elapsed for the process
C02_SumIsElapsed ==
  \A p \in live \cap DOMAIN front :
     front[p].pend # "quiet" =>
       sumTs[p] + skipped[p] = front[p].start - entry[p]
\* C02: intervals are contiguous: a new interval starts where the process
\* stands (end of its previous interval or the time it was advanced to)
C02_Contiguous ==
  [][\A p \in DOMAIN front \cap DOMAIN front' :
       (front'[p].pend = "upd" /\ front[p].pend # "upd") =>
          (front'[p].start = front[p].time /\ front'[p].time > front[p].time)]_vars
\* C02: after update() (forced completion) every process stands at `now`
C02_CompleteAfterForce ==
  (pc = "idle" /\ lastForce) =>
     \A p \in DOMAIN front : front[p].time = now /\ front[p].pend = "none"

\* C03
C03_Monotone    == [][now' >= now]_vars
C03_NoOvershoot == pc \notin {"idle", "construct", "csteps", "cemit"} => now <= endT
C03_ReturnExact == (pc = "idle" /\ calls > 0) => now = endT
\* every advance makes progress or ends the call
\* the inductive invariant that Clock.tla proves for unbounded integer times (Apalache),
\* on the loop-head states of this specification: ties the abstraction to the
\* specification the implementation is bound to
C03_ClockIndInv ==
  (pc = "loop" /\ Dev = {}) =>
    /\ now <= endT
    /\ \A p \in (DOMAIN front \cap live) \ fresh :
         /\ front[p].pend \in {"none", "upd"}
         /\ front[p].pend = "upd" => (now < front[p].time /\ front[p].time <= endT)
         /\ (front[p].pend = "none" /\ front[p].dts = 0) => front[p].time = now
         /\ front[p].pend = "none" => front[p].time <= now
         /\ front[p].dts >= 0
         /\ front[p].dts # 0 => (front[p].pend = "none" /\ front[p].time + front[p].dts > now)

C03_Progress ==
  [][pc = "advance" => (now' > now \/ (now' = endT /\ ~force'))]_vars
C03_Terminates == (pc = "loop") ~> (pc = "idle")

\* C04: all processes started in one poll pass (and all steps of one layer)
\* are started on the same committed state
C04_Snapshot ==
  /\ pc = "poll" => ver = pver
  /\ (InSteps /\ layerTodo # {}) => ver = pver
C04_NoCommitWhilePolling ==
  [][(pc = "poll" /\ pc' = "poll") => val' = val]_vars

\* C05
C05_DepsAppliedBeforeInvoke ==
  \A s \in invPhase : TransDeps(s, deps) \cap phaseSet \cap liveSteps \subseteq ranPhase \cup {s}
C05_SeqStepsAlone ==
  \A i \in 1..Len(staged) :
     (\E j \in 1..Len(seqSteps) : seqSteps[j] = staged[i].step) => Len(staged) = 1
C05_OncePerPhase ==
  \A s \in Steps : s \in liveSteps => (val[s] = phases + (IF s \in ranPhase THEN 1 ELSE 0))
C05_StepsOnlyAfterBatch ==
  [][(pc' \in {"layer"} /\ pc \notin {"layer"}) => pc = "steps"]_vars

\* C12
C12_RowAfterSteps == [][lastRow' # lastRow => pc \in {"emit", "cemit"}]_vars
C12_RowAtNow      == [][lastRow' # lastRow => lastRow' = now /\ lastRow' > lastRow]_vars
C12_RowPerBatch   ==
  [][(emitStep = 1 /\ pc = "emit" /\ pc' # "emit") => lastRow' = now]_vars

\* C10: a created process starts at the time of its creation, with nothing in flight
C10_FreshStartsNow ==
  [][\A p \in fresh : (pc = "loop" /\ pc' = "poll") =>
        (p \in live => (front'[p].time = now /\ front'[p].pend = "none"))]_vars
\* C10: while polling, the engine knows exactly the processes in the hierarchy
C10_FrontIsLive == pc = "poll" => (DOMAIN front = live /\ toPoll \subseteq live)
\* C10: nothing of a deleted process stays in flight
C10_DeletedNotInFlight ==
  \A p \in DOMAIN front : (p \notin live /\ p \notin due) => front[p].pend # "upd"

TypeOK ==
  /\ now \in 0..Horizon /\ endT \in 0..Horizon
  /\ pc \in {"construct", "csteps", "cemit", "idle", "loop", "poll",
             "advance", "apply", "steps", "layer", "emit"}
  /\ live \subseteq Procs /\ DOMAIN front \subseteq Procs
  /\ toPoll \subseteq Procs /\ quiet \subseteq Procs /\ due \subseteq Procs

Fairness == WF_vars(Internal)
=============================================================================
