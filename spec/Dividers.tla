------------------------------ MODULE Dividers ------------------------------
(***************************************************************************)
(* Dividers (property C11): what the two daughters of a dividing           *)
(* compartment may start from.  Every divider is a relation between the    *)
(* mother's value and the pair of daughter values; the randomised ones     *)
(* (split of an odd integer, binomial, split_dict) allow several pairs.    *)
(* A daughter variable holds, in this order of precedence: the value given *)
(* explicitly for that daughter, the divided value, the schema default.    *)
(***************************************************************************)
EXTENDS Integers, Sequences, FiniteSets, TLC, Json, IOUtils, SequencesExt, FiniteSetsExt

CONSTANTS MaxV,      \* mother values range over 0..MaxV
          SetValueC  \* the configured value of set_value

Vals == 0..MaxV
ScalarDividers == {"set", "split", "zero", "binomial", "set_value"}

Half(v) == v \div 2
Outs(d, v) ==
  CASE d = "set"       -> {<<v, v>>}
    [] d = "split"     -> {<<v - Half(v), Half(v)>>, <<Half(v), v - Half(v)>>}
    [] d = "zero"      -> {<<0, 0>>}
    [] d = "binomial"  -> {<<k, v - k>> : k \in 0..v}
    [] d = "set_value" -> {<<SetValueC, SetValueC>>}

\* split_dict: the keys are partitioned, sizes differ by at most one
KeySets == SUBSET {"k1", "k2", "k3"}
DictOuts(K) == {<<A, K \ A>> : A \in {X \in SUBSET K :
                   Cardinality(X) \in {Cardinality(K) \div 2,
                                       Cardinality(K) - Cardinality(K) \div 2}}}

\* a custom divider reading a sibling through its topology: (v + o, v - o)
CustomOuts(v, o) == {<<v + o, v - o>>}

\* ---- a compartment: variables with dividers; what a daughter may hold
\* kind of a variable declaration: [div, default]; "null" skips the variable
DaughterVals(div, v, default, explicit1, explicit2) ==
  LET base == IF div = "null" THEN {<<default, default>>} ELSE Outs(div, v)
  IN {<<IF explicit1 # -1 THEN explicit1 ELSE p[1],
        IF explicit2 # -1 THEN explicit2 ELSE p[2]>> : p \in base}

VARIABLE c
Init == \/ \E d \in ScalarDividers, v \in Vals : c = [kind |-> "scalar", d |-> d, v |-> v]
        \/ \E K \in KeySets : c = [kind |-> "dict", keys |-> K]
Next == UNCHANGED c

\* split and binomial conserve the total; split is as even as possible
LawConserved ==
  (c.kind = "scalar" /\ c.d \in {"split", "binomial"}) =>
     \A p \in Outs(c.d, c.v) : p[1] + p[2] = c.v /\ p[1] >= 0 /\ p[2] >= 0
LawSplitEven ==
  (c.kind = "scalar" /\ c.d = "split") =>
     \A p \in Outs(c.d, c.v) : p[1] - p[2] \in {-1, 0, 1}
\* split commutes with even shifts of the mother's value: large counts divide
\* like small ones (the harness instantiates m with 2^59 on the implementation,
\* where TLC's 32-bit integers cannot go)
LawSplitShift ==
  (c.kind = "scalar" /\ c.d = "split") =>
     \A m \in 0..MaxV :
        Outs("split", c.v + 2 * m) = {<<p[1] + m, p[2] + m>> : p \in Outs("split", c.v)}
LawCopies ==
  (c.kind = "scalar" /\ c.d = "set") => Outs(c.d, c.v) = {<<c.v, c.v>>}
LawZero ==
  (c.kind = "scalar" /\ c.d = "zero") => Outs(c.d, c.v) = {<<0, 0>>}
LawPartition ==
  c.kind = "dict" =>
     \A p \in DictOuts(c.keys) : p[1] \cup p[2] = c.keys /\ p[1] \cap p[2] = {}
LawNonEmpty ==
  (c.kind = "scalar" => Outs(c.d, c.v) # {}) /\ (c.kind = "dict" => DictOuts(c.keys) # {})

Export ==
  /\ TLCGet("stats").generated >= 0
  /\ JsonSerialize(IOEnv.OUT_FILE,
       [scalar |-> SetToSeq({[d |-> d, v |-> v, outs |-> Outs(d, v)] :
                                d \in ScalarDividers, v \in Vals}),
        dict |-> SetToSeq({[keys |-> K, outs |-> DictOuts(K)] : K \in KeySets}),
        custom |-> SetToSeq({[v |-> v, o |-> o, outs |-> CustomOuts(v, o)] :
                                v \in Vals, o \in 0..2}),
        setvalue |-> SetValueC])
=============================================================================
