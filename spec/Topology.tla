------------------------------ MODULE Topology ------------------------------
(***************************************************************************)
(* Ports and topologies (properties C06, C07 static shape, C15).           *)
(*                                                                         *)
(* A process sits at absolute path Loc \o <<"proc">>; Loc is the path of   *)
(* its parent ("base").  It declares ports; every port has a kind (what    *)
(* its schema looks like) and a topology entry (where it is wired).  One   *)
(* resolution function R maps every declared variable - addressed as the   *)
(* process sees it: <<port>> \o v - to the absolute path of a hierarchy    *)
(* node.  Reading (the view) and writing (the inverse of an update) both   *)
(* use R: that is the content of C06.                                      *)
(*                                                                         *)
(* Port kinds:   leaf    the port is itself a variable                     *)
(*               branch  the port holds variables vs                       *)
(*               nested  the port holds a sub-branch "n" holding vs        *)
(*               glob    the port declares '*': vs for each child in kids  *)
(*               output  a branch whose schema is marked _output           *)
(* Topology entries:                                                       *)
(*   [t |-> "path", p]            the port is the node  Norm(base \o p)    *)
(*   [t |-> "dict", hasp, p, sub] base moves to Norm(base \o p) if hasp;   *)
(*        the children named in sub are wired to Norm(newbase \o sub[c]),  *)
(*        every other child c to newbase \o <<c>>                          *)
(***************************************************************************)
EXTENDS Naturals, Sequences, FiniteSets, TLC, Json, IOUtils, SequencesExt, FiniteSetsExt

CONSTANTS MaxPorts, Locs2   \* Locs2: TRUE to include the deeper process locations

UP == ".."
Front1(p) == SubSeq(p, 1, Len(p) - 1)
RECURSIVE NormAcc(_, _)
NormAcc(p, acc) ==
  IF p = <<>> THEN acc
  ELSE IF Head(p) = UP /\ acc # <<>> /\ Last(acc) # UP
         THEN NormAcc(Tail(p), Front1(acc))
         ELSE NormAcc(Tail(p), Append(acc, Head(p)))
Norm(p) == NormAcc(p, <<>>)
Escapes(p) == \E i \in 1..Len(Norm(p)) : Norm(p)[i] = UP
IsPrefixOf(p, q) == Len(p) <= Len(q) /\ SubSeq(q, 1, Len(p)) = p

Locs == IF Locs2 THEN {<<>>, <<"c">>, <<"c", "d">>} ELSE {<<>>, <<"c">>}

RelPaths == {<<"x">>, <<"y">>, <<"x", "y">>, <<"y", "x">>, <<UP, "x">>, <<UP, "y">>,
             <<UP, UP, "x">>, <<"x", UP, "y">>, <<UP, "c", "x">>, <<"x", "w">>, <<"x", "a">>}

Kinds == {[k |-> "leaf", vs |-> {}, kids |-> {}],
          [k |-> "branch", vs |-> {"a"}, kids |-> {}],
          [k |-> "branch", vs |-> {"a", "b"}, kids |-> {}],
          [k |-> "nested", vs |-> {"a"}, kids |-> {}],
          [k |-> "glob", vs |-> {"a"}, kids |-> {"k1", "k2"}],
          [k |-> "output", vs |-> {"a"}, kids |-> {}],
          \* a glob inside a glob: '*': {pool: {'*': {a}}} for children k1 and,
          \* in each child's pool, members m1, m2
          [k |-> "glob2", vs |-> {"a"}, kids |-> {"k1"}]}

\* variables of a port as the process sees them below the port name
PortVars(kd) ==
  CASE kd.k = "leaf"   -> {<<>>}
    [] kd.k = "branch" -> {<<v>> : v \in kd.vs}
    [] kd.k = "output" -> {<<v>> : v \in kd.vs}
    [] kd.k = "nested" -> {<<"n", v>> : v \in kd.vs}
    [] kd.k = "glob"   -> {<<c, v>> : c \in kd.kids, v \in kd.vs}
    [] kd.k = "glob2"  -> {<<c, "pool", m, v>> : c \in kd.kids, m \in {"m1", "m2"}, v \in kd.vs}
\* direct children of the port (what a dictionary topology may rename)
Children(kd) ==
  CASE kd.k = "nested" -> {"n"}
    [] kd.k \in {"branch", "output"} -> kd.vs
    [] OTHER -> {}

SubMaps(kd) == UNION {[S -> {<<"y">>, <<UP, "x">>, <<"x", "a">>}] : S \in SUBSET Children(kd)}
\* a glob port may also carry a dictionary under '*': its own _path, and per
\* child a renaming of the declared sub-variables (relative to the child)
GlobSubMaps(kd) == UNION {[S -> {<<"m">>, <<"n", "a">>}] : S \in SUBSET kd.vs}
\* "omit": the topology does not mention the port at all; the port is then
\* wired to the store named after it next to the process (p = <<port name>>,
\* enforced in Cases), for reading and for writing alike
Topos(kd) ==
  {[t |-> "path", hasp |-> FALSE, p |-> p, sub |-> <<>>] : p \in RelPaths}
  \cup (IF kd.k \in {"leaf", "branch", "nested"}
        THEN {[t |-> "omit", hasp |-> FALSE, p |-> <<n>>, sub |-> <<>>] : n \in {"P", "Q"}}
        ELSE {})
  \* a glob port wired by {'*': path}: every child is looked up below the path
  \* (the same nodes as with the plain path, through another branch of the code)
  \cup (IF kd.k # "glob" THEN {}
        ELSE {[t |-> "gpath", hasp |-> FALSE, p |-> p, sub |-> <<>>] : p \in RelPaths})
  \cup (IF kd.k # "glob" THEN {}    \* (glob2 only with plain paths)
        ELSE {[t |-> "gdict", hasp |-> TRUE, p |-> p, sub |-> s] :
                p \in {<<"x">>, <<UP, "y">>, <<"x", "w">>}, s \in GlobSubMaps(kd)})
  \* a leaf port wired by a dictionary that only names its node ({'_path': p})
  \cup (IF kd.k # "leaf" THEN {}
        ELSE {[t |-> "dict", hasp |-> TRUE, p |-> p, sub |-> <<>>] : p \in {<<"x">>, <<UP, "y">>}})
  \* (also for an output port: '_output' says how the port is read, it is
  \*  not one of its variables)
  \cup (IF Children(kd) = {} THEN {}
        ELSE {[t |-> "dict", hasp |-> h, p |-> p, sub |-> s] :
                h \in BOOLEAN, p \in {<<"x">>, <<UP, "y">>}, s \in SubMaps(kd)})

\* ---- the resolution function
R(base, tp, v) ==
  IF tp.t \in {"path", "omit", "gpath"} THEN Norm(base \o tp.p) \o v
  ELSE IF tp.t = "gdict" THEN
       \* v = <<child, variable>>
       IF v[2] \in DOMAIN tp.sub
         THEN Norm(Norm(base \o tp.p) \o <<v[1]>> \o tp.sub[v[2]])
         ELSE Norm(base \o tp.p) \o v
  ELSE LET nb == IF tp.hasp THEN Norm(base \o tp.p) ELSE base
       IN IF v # <<>> /\ Head(v) \in DOMAIN tp.sub
            THEN Norm(nb \o tp.sub[Head(v)]) \o Tail(v)
            ELSE nb \o v

PortNames == <<"P", "Q">>
\* a case: a location and a sequence of ports [name, kd, tp]
Ports1 == {[kd |-> kd, tp |-> tp] : kd \in Kinds, tp \in UNION {Topos(k) : k \in Kinds}}
PortOK(pt) == pt.tp \in Topos(pt.kd)
PortSpecs == {pt \in Ports1 : PortOK(pt)}

VarsOf(loc, ports) ==
  UNION {{[port |-> PortNames[i], v |-> v, node |-> R(loc, ports[i].tp, v),
           out |-> ports[i].kd.k = "output"] : v \in PortVars(ports[i].kd)} : i \in DOMAIN ports}

GlobNodes(loc, ports) ==
  {Norm(loc \o ports[i].tp.p) : i \in {j \in DOMAIN ports : ports[j].kd.k \in {"glob", "glob2"}}}

\* well-formed: nothing escapes the root, no variable node lies on the way to
\* another (a node is a variable or a branch, not both), nothing is wired
\* into the process node, nothing else is wired below a glob node
WellFormed(loc, ports) ==
  LET V == VarsOf(loc, ports)
      N == {x.node : x \in V}
      me == loc \o <<"proc">>
  IN /\ \A i \in DOMAIN ports :
          /\ ~Escapes(loc \o ports[i].tp.p)
          /\ ports[i].tp.t = "dict" =>
               \A c \in DOMAIN ports[i].tp.sub :
                  ~Escapes((IF ports[i].tp.hasp THEN Norm(loc \o ports[i].tp.p) ELSE loc)
                           \o ports[i].tp.sub[c])
     /\ \A a \in N : a # <<>> /\ ~IsPrefixOf(me, a) /\ ~IsPrefixOf(a, me)
     /\ \A a, b \in N : a # b => ~IsPrefixOf(a, b)
     \* the node a non-leaf port (or a _path) names is a branch: no variable
     \* may sit at or above it
     /\ \A i \in DOMAIN ports :
          (ports[i].kd.k # "leaf" /\ (ports[i].tp.t \in {"path", "omit", "gpath"} \/ ports[i].tp.hasp)) =>
             \A a \in N : ~IsPrefixOf(a, Norm(loc \o ports[i].tp.p))
     /\ \A g \in GlobNodes(loc, ports) :
          \A x \in V : IsPrefixOf(g, x.node) =>
             \E i \in DOMAIN ports :
                /\ PortNames[i] = x.port /\ ports[i].kd.k \in {"glob", "glob2"}
                /\ Norm(loc \o ports[i].tp.p) = g
     /\ \A i, j \in DOMAIN ports :
          (i # j /\ ports[i].kd.k \in {"glob", "glob2"} /\ ports[j].kd.k \in {"glob", "glob2"}) =>
             \/ Norm(loc \o ports[i].tp.p) # Norm(loc \o ports[j].tp.p)
             \* (two glob ports declaring the same sub-variable may share their
             \*  store when both are wired by a path: all their variables collide)
             \/ /\ ports[i].kd = ports[j].kd /\ ports[i].kd.k = "glob"
                /\ ports[i].tp.t \in {"path", "gpath"} /\ ports[j].tp.t \in {"path", "gpath"}

PortSeqs == UNION {[1..n -> PortSpecs] : n \in 1..MaxPorts}
OmitOK(ports) == \A i \in DOMAIN ports : ports[i].tp.t = "omit" => ports[i].tp.p = <<PortNames[i]>>
Cases == {cs \in [loc : Locs, ports : PortSeqs] : OmitOK(cs.ports) /\ WellFormed(cs.loc, cs.ports)}

-----------------------------------------------------------------------------
(* abstract run: every node starts with its own value; the process returns  *)
(* a distinct amount for every declared variable; all updaters accumulate   *)

VARIABLE c
Init == c \in Cases
Next == UNCHANGED c

V(cs) == VarsOf(cs.loc, cs.ports)
Nodes(cs) == {x.node : x \in V(cs)}
\* the bag of updates reaching a node
Hits(cs, n) == {x \in V(cs) : x.node = n}

\* R is total on the declared variables and lands inside the hierarchy
LawTotal == \A x \in V(c) : ~Escapes(x.node) /\ x.node # <<>>
\* the inverse of an update touches exactly the nodes the view reads
LawSameNodes ==
  {x.node : x \in {y \in V(c) : ~y.out}} \subseteq Nodes(c)
\* when several variables are wired to one node every one of them hits it
LawCollisionsKept ==
  \A n \in Nodes(c) : Cardinality(Hits(c, n)) >= 1
     /\ Cardinality(UNION {Hits(c, m) : m \in Nodes(c)}) = Cardinality(V(c))

-----------------------------------------------------------------------------
(* Rewiring a port of an existing process to another store (Store.connect):  *)
(* the topology entry becomes the relative path from the process's parent to  *)
(* the target (as path_to gives it), and from then on the port's variables    *)
(* are read from and written to the target.                                   *)

RECURSIVE CommonLen(_, _)
CommonLen(a, b) ==
  IF a = <<>> \/ b = <<>> \/ Head(a) # Head(b) THEN 0
  ELSE 1 + CommonLen(Tail(a), Tail(b))
PathTo(a, b) ==
  LET k == CommonLen(a, b)
  IN [i \in 1..(Len(a) - k) |-> UP] \o SubSeq(b, k + 1, Len(b))

RewireTargets == {<<"t1">>, <<"c", "t2">>, <<"c", "d", "t3">>, <<"u", "t4">>}
RewireKinds == {kd \in Kinds : kd.k \in {"leaf", "branch"}}
RewireCases ==
  {[loc |-> loc, kd |-> kd, p |-> p, tgt |-> tgt] :
      loc \in Locs, kd \in RewireKinds, p \in {<<"x">>, <<UP, "y">>, <<"x", "w">>},
      tgt \in RewireTargets}
RewireOK(rc) ==
  LET ports == <<[kd |-> rc.kd, tp |-> [t |-> "path", hasp |-> FALSE, p |-> rc.p, sub |-> <<>>]]>>
  IN WellFormed(rc.loc, ports) /\ ~IsPrefixOf(rc.loc \o <<"proc">>, rc.tgt)
\* for a leaf port the target is a variable of the target store
TargetNode(rc) == IF rc.kd.k = "leaf" THEN rc.tgt \o <<"a">> ELSE rc.tgt
RewireEntry(rc) ==
  [loc |-> rc.loc, kind |-> rc.kd.k, vs |-> rc.kd.vs, p |-> rc.p, tgt |-> TargetNode(rc),
   newpath |-> PathTo(rc.loc, TargetNode(rc)),
   before |-> {[v |-> v, node |-> Norm(rc.loc \o rc.p) \o v] : v \in PortVars(rc.kd)},
   after |-> {[v |-> v, node |-> TargetNode(rc) \o v] : v \in PortVars(rc.kd)}]
\* following the new entry from the process's parent reaches the target
LawRewireReachesTarget ==
  \A rc \in {x \in RewireCases : RewireOK(x)} :
     Norm(rc.loc \o PathTo(rc.loc, TargetNode(rc))) = TargetNode(rc)

ExportRewire ==
  /\ TLCGet("stats").generated >= 0
  /\ JsonSerialize(IOEnv.OUT_FILE,
        SetToSeq({RewireEntry(rc) : rc \in {x \in RewireCases : RewireOK(x)}}))

Entry(cs) ==
  [loc |-> cs.loc,
   ports |-> [i \in DOMAIN cs.ports |->
                [name |-> PortNames[i], kind |-> cs.ports[i].kd.k,
                 vs |-> cs.ports[i].kd.vs,
                 kids |-> cs.ports[i].kd.kids,
                 t |-> cs.ports[i].tp.t,
                 p |-> cs.ports[i].tp.p,
                 hasp |-> cs.ports[i].tp.hasp,
                 sub |-> {<<k, cs.ports[i].tp.sub[k]>> : k \in DOMAIN cs.ports[i].tp.sub}]],
   vars |-> {[port |-> x.port, v |-> x.v, node |-> x.node, out |-> x.out] : x \in V(cs)}]

Export ==
  /\ TLCGet("stats").generated >= 0
  /\ JsonSerialize(IOEnv.OUT_FILE, SetToSeq({Entry(cs) : cs \in Cases}))
=============================================================================
